#!/bin/bash
# run every claimed check against a scratch copy of /repo with the seed's patch applied
pid=$1; patch=$2
t=$(mktemp -d /tmp/bva-eval-XXXX)
cp -r /repo/src /repo/Cargo.toml /repo/Cargo.lock $t/
(cd $t && patch -p1 -s -i $patch) || { echo "patch failed"; exit 2; }
caught=""
for p in C01 C02 C03 C04 C05 C07 C08 C09 C10 C11 C12 C13 C15 C17 C18 C19 C20; do
  out=$(cd /verif && BVA_FACTS_CACHE=$t/.cache ./check $p --repo $t --no-write 2>&1)
  if echo "$out" | grep -q "^VIOLATION"; then caught="$caught $p"; echo "== $p"; echo "$out" | grep -A3 "^VIOLATION" | grep -E "rule=|^  [^ra]" | head -8 | cut -c1-300; fi
done
echo "SEED $pid caught by:$caught"
rm -rf $t
