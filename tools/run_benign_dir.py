#!/usr/bin/env python3
"""Replay every behaviour-preserving refactor kept under /verif/benign/<name>/patch.diff on a scratch copy of /repo and
list the checks that fire (each one is a false alarm to remove, unless the refactor turns out not to be benign).
  python3 tools/run_benign_dir.py [name-substring] [pid ...]"""
import os, shutil, subprocess, sys, tempfile
from concurrent.futures import ThreadPoolExecutor
VERIF = os.path.dirname(os.path.dirname(os.path.abspath(__file__)))
sys.path.insert(0, VERIF)
from rules import selftest
PIDS = ["C01", "C02", "C03", "C04", "C05", "C07", "C08", "C09", "C10", "C11", "C12", "C13", "C15", "C17", "C18", "C19", "C20"]

def run(name, pids):
    tmp = tempfile.mkdtemp(prefix="bva-benign-")
    try:
        selftest._copy_tree("/repo", tmp)
        r = subprocess.run(["patch", "-p1", "-s", "-i", os.path.join(VERIF, "benign", name, "patch.diff")], cwd=tmp, stdout=subprocess.PIPE, stderr=subprocess.STDOUT, text=True)
        if r.returncode != 0:
            return name, "PATCH-FAILED", []
        fired, lines = [], []
        for pid in pids:
            rc, out = selftest._run_check(pid, tmp, os.path.join(tmp, ".cache"))
            if rc != 0:
                fired.append(pid)
                ls = out.splitlines()
                for i, l in enumerate(ls):
                    if l.startswith("  rule="):
                        msg = next((x.strip() for x in ls[i + 1:i + 4] if x.strip().startswith(("[dbg]", "[rel]", "found", "a rule"))), "")
                        lines.append("%s %s :: %s" % (pid, l.strip(), msg[:230]))
        return name, fired, list(dict.fromkeys(lines))
    finally:
        shutil.rmtree(tmp, ignore_errors=True)

if __name__ == "__main__":
    sel = sys.argv[1] if len(sys.argv) > 1 else ""
    pids = sys.argv[2:] or PIDS
    names = sorted(n for n in os.listdir(os.path.join(VERIF, "benign")) if sel in n)
    with ThreadPoolExecutor(max_workers=int(os.environ.get("WORKERS", "4"))) as ex:
        for name, fired, lines in ex.map(lambda n: run(n, pids), names):
            print("%-44s fired=%s" % (name, fired))
            for l in lines[:int(os.environ.get("MAXLINES", "12"))]:
                print("     " + l)
