#!/usr/bin/env python3
"""Regenerate /verif/MANIFEST.json from the property registry (rules/props.py) so that the
manifest can never drift from what ./check implements."""
import json
import os
import subprocess
import sys

HERE = os.path.dirname(os.path.dirname(os.path.abspath(__file__)))
sys.path.insert(0, HERE)
from rules import props  # noqa: E402

NA = dict(props.NOT_APPLICABLE)
NA.update(props.PENDING)

ids = []
with open(os.path.join(HERE, "properties.jsonl")) as fh:
    for line in fh:
        if line.strip():
            ids.append(json.loads(line)["id"])

fix_commits = []
try:
    out = subprocess.check_output(["git", "-C", "/repo", "log", "--format=%h %s", "--reverse"], text=True)
    for l in out.splitlines():
        h, s = l.split(" ", 1)
        if s.startswith("fix:"):
            fix_commits.append(h)
except Exception:
    pass

checks = []
for pid in ids:
    if pid in props.PROPS:
        p = props.PROPS[pid]
        checks.append({
            "property_id": pid,
            "quick_cmd": "./check %s --tier quick" % pid,
            "thorough_cmd": "./check %s --tier thorough" % pid,
            "evidence_file": "evidence/%s.json" % pid,
            "replay_cmd_template": "./check %s --replay {path}" % pid,
            "engine": "bva-rules",
            "level_claimed": {
                "category": "other",
                "text": p["level"],
                "design_ref": p.get("design_ref", "DESIGN.md section 5 (%s)" % pid),
            },
            "level_note": p.get("note", "Trusted: rustc nightly MIR construction, the bva-facts serialiser, the rule engine, and the "
                                "table entries listed under trusted_base in the evidence. Target x86_64 little-endian only."),
            "technique": p["technique"],
        })
    elif pid not in NA:
        raise SystemExit("property %s is neither claimed nor listed as not applicable" % pid)

manifest = {
    "version": 1,
    "setup_cmd": "cd driver && CARGO_NET_OFFLINE=true cargo +nightly build --release --offline",
    "hooks": {
        "guard": "bva_verif",
        "enable": "none needed: the checks read the compiler's MIR of the unmodified crate through a RUSTC_WORKSPACE_WRAPPER "
                  "driver (cargo +nightly check --lib); no source hook or cfg flag is compiled into /repo",
        "baseline_off_cmd": "cd /repo && cargo test --workspace --no-fail-fast --offline",
        "source_commits": fix_commits,
        "add_only": True,
    },
    "engines": [
        {"name": "bva-facts", "path": "driver/", "serves_properties": sorted(props.PROPS),
         "kind_free_text": "rustc_private driver: serialises type-checked built MIR, impl tables, layouts of both build configurations"},
        {"name": "bva-rules", "path": "rules/", "serves_properties": sorted(props.PROPS),
         "kind_free_text": "Python rule engine: pruned CFGs, dominance / must-pass queries, expression reconstruction, rule families"},
    ],
    "checks": checks,
    "not_applicable": [{"property_id": k, "reason": v} for k, v in NA.items() if k in ids],
    "notes": "Static analysis only (DESIGN.md). `source_commits` lists the unguarded `fix:` commits that repair genuine defects "
             "found by these checks (see known_findings.json); there are no hook commits.",
}
with open(os.path.join(HERE, "MANIFEST.json"), "w") as fh:
    json.dump(manifest, fh, indent=1)
print("MANIFEST.json: %d checks, %d not applicable" % (len(checks), len(manifest["not_applicable"])))
