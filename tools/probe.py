#!/usr/bin/env python3
"""Exploration helper: apply ad-hoc textual edits (one per probe) to a scratch copy of /repo and list which checks fire.

  python3 tools/probe.py <probe-file.py> [id-substring]

The probe file defines PROBES = [(id, file, old, new, note), ...]. Nothing is written to /repo or to /verif/evidence.
This is a development aid for finding blind spots and false alarms; registered checks never use it.
"""
import importlib.util
import os
import shutil
import subprocess
import sys
import tempfile
from concurrent.futures import ThreadPoolExecutor

VERIF = os.path.dirname(os.path.dirname(os.path.abspath(__file__)))
sys.path.insert(0, VERIF)
from rules import selftest  # noqa: E402

PIDS = ["C01", "C02", "C03", "C04", "C05", "C07", "C08", "C09", "C10", "C11", "C12", "C13", "C15", "C17", "C18", "C19", "C20"]


def run_probe(p, repo="/repo"):
    pid_, path, old, new, note = p
    text = open(os.path.join(repo, path)).read()
    if text.count(old) < 1:
        return pid_, "ANCHOR-NOT-FOUND", []
    tmp = tempfile.mkdtemp(prefix="bva-probe-")
    try:
        selftest._copy_tree(repo, tmp)
        with open(os.path.join(tmp, path), "w") as fh:
            fh.write(text.replace(old, new, 1))
        fired, lines = [], []
        cache = os.path.join(tmp, ".cache")
        # first check builds the facts; the rest reuse them
        for pid in PIDS:
            rc, out = selftest._run_check(pid, tmp, cache)
            if "BUILD-FAILED" in out:
                return pid_, "BUILD-FAILED", [l for l in out.splitlines() if "error" in l][:5]
            if rc != 0:
                fired.append(pid)
                for l in out.splitlines():
                    if l.startswith("  rule=") and "known" not in l:
                        lines.append(pid + " " + l.strip()[:230])
        return pid_, fired, list(dict.fromkeys(lines))[:8]
    finally:
        shutil.rmtree(tmp, ignore_errors=True)


if __name__ == "__main__":
    spec = importlib.util.spec_from_file_location("probes", sys.argv[1])
    mod = importlib.util.module_from_spec(spec)
    spec.loader.exec_module(mod)
    sel = sys.argv[2] if len(sys.argv) > 2 else ""
    probes = [p for p in mod.PROBES if sel in p[0]]
    with ThreadPoolExecutor(max_workers=int(os.environ.get("PROBE_WORKERS", "4"))) as ex:
        for (pid_, fired, lines), p in zip(ex.map(run_probe, probes), probes):
            print("%-34s %-10s fired=%s" % (pid_, "[" + p[4] + "]", fired))
            for l in lines:
                print("      " + l)
