#!/usr/bin/env python3
"""write /tmp/hints/<pid>.txt: what earlier contributors tried for that property (from seeded/*/meta.json) + the request for subtlety"""
import json, os, sys
VERIF = os.path.dirname(os.path.dirname(os.path.abspath(__file__)))
PIDS = ["C01", "C02", "C03", "C04", "C05", "C07", "C08", "C09", "C10", "C11", "C12", "C13", "C15", "C17", "C18", "C19", "C20"]
extra = sys.argv[1] if len(sys.argv) > 1 else ""
os.makedirs("/tmp/hints", exist_ok=True)
by = {p: [] for p in PIDS}
for n in sorted(os.listdir(os.path.join(VERIF, "seeded"))):
    m = json.load(open(os.path.join(VERIF, "seeded", n, "meta.json")))
    if m["property"] in by:
        by[m["property"]].append(m["summary"][:260])
for p in PIDS:
    t = "Earlier contributors already tried the following for this property, so do something DIFFERENT from all of them (a different function, a different mechanism):\n"
    t += "\n".join(" - " + x for x in by[p]) + "\n"
    t += (" Make the change as SUBTLE as you can: it should survive a careful code review - e.g. an equivalent-looking rewrite that differs only on a "
          "boundary (length a multiple of the word size, length 0 or 1, an operand exactly at capacity, word-aligned amounts, an unusual word type such as "
          "u128 or usize, an operand of another implementation, a value with a zero word in the middle). Cooperating edits in two functions, or a "
          "dependence on the build profile (overflow checks / debug assertions), are welcome but not required. " + extra)
    open("/tmp/hints/%s.txt" % p, "w").write(t)
print("ok")
