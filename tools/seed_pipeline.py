#!/usr/bin/env python3
"""Bookkeeping for independent seeded changes (see DESIGN section 12).

  prep   <tag> <pid> <hint-file>       create scratch worktree /tmp/<tag>-<pid> and the sub-agent prompt /tmp/seedprompts/<tag>-<pid>.txt
  finish <tag> <pid> <seed-name>       confirm (suite + demo with/without patch), evaluate every check, store under
                                       /verif/seeded/<seed-name>/ and remove the worktree

The sub-agent sees only the property text, the scratch worktree and a one-sentence note on what earlier contributors tried.
Nothing here ever writes to /repo (worktrees are detached checkouts under /tmp) or is used by a registered check.
"""
import json
import os
import re
import shutil
import subprocess
import sys

VERIF = os.path.dirname(os.path.dirname(os.path.abspath(__file__)))
PIDS = ["C01", "C02", "C03", "C04", "C05", "C07", "C08", "C09", "C10", "C11", "C12", "C13", "C15", "C17", "C18", "C19", "C20"]


def props():
    out = {}
    with open(os.path.join(VERIF, "properties.jsonl")) as fh:
        for l in fh:
            if l.strip():
                p = json.loads(l)
                out[p["id"]] = p
    return out


def prep(tag, pid, hint):
    wt = "/tmp/%s-%s" % (tag, pid)
    subprocess.run(["git", "-C", "/repo", "worktree", "add", "--detach", wt, "HEAD"], stdout=subprocess.DEVNULL, stderr=subprocess.DEVNULL)
    p = props()[pid]
    base = open(os.path.join(VERIF, "tools", "seed_prompt_template.txt")).read()
    t = base.replace("/tmp/seed-C02", wt)
    t = re.sub(r"PROPERTY C02 - .*?\nQuantified over: .*?\n",
               lambda m: "PROPERTY %s - %s\n%s\nQuantified over: %s\n" % (pid, p["title"], p["statement"], p["quantifier"]["text"]), t, flags=re.S)
    t = re.sub(r"Areas worth looking at:.*?\n\nDeliverables", lambda m: hint + "\n\nDeliverables", t, flags=re.S)
    t = t.replace('"property": "C02"', '"property": "%s"' % pid)
    os.makedirs("/tmp/seedprompts", exist_ok=True)
    path = "/tmp/seedprompts/%s-%s.txt" % (tag, pid)
    with open(path, "w") as fh:
        fh.write(t)
    print(path)


def prep_benign(tag, pid, hint=""):
    """scratch worktree + prompt for a behaviour-preserving refactor (false-alarm testing)"""
    wt = "/tmp/%s-%s" % (tag, pid)
    subprocess.run(["git", "-C", "/repo", "worktree", "add", "--detach", wt, "HEAD"], stdout=subprocess.DEVNULL, stderr=subprocess.DEVNULL)
    p = props()[pid]
    t = open(os.path.join(VERIF, "tools", "benign_prompt_template.txt")).read()
    for k, v in (("@WT@", wt), ("@PID@", pid), ("@TITLE@", p["title"]), ("@STATEMENT@", p["statement"]),
                 ("@QUANT@", p["quantifier"]["text"]), ("@HINT@", hint)):
        t = t.replace(k, v)
    os.makedirs("/tmp/seedprompts", exist_ok=True)
    path = "/tmp/seedprompts/%s-%s.txt" % (tag, pid)
    with open(path, "w") as fh:
        fh.write(t)
    print(path)


def finish_benign(tag, pid, name):
    """run the suite and every check on the refactored tree; store it under /verif/benign/<name>/; any check that fires
    must be triaged by hand (false alarm of the check, or the refactor is not behaviour-preserving after all)"""
    wt = "/tmp/%s-%s" % (tag, pid)
    seed = os.path.join(wt, "SEED")
    meta = json.load(open(os.path.join(seed, "meta.json")))
    r = subprocess.run("cargo test --offline --lib 2>&1 | grep -E '^test result' | head -1", shell=True, cwd=wt, stdout=subprocess.PIPE, text=True)
    suite = r.stdout.strip()
    r = subprocess.run([os.path.join(VERIF, "tools", "eval_seed.sh"), pid, os.path.join(seed, "patch.diff")],
                       stdout=subprocess.PIPE, stderr=subprocess.STDOUT, text=True)
    m = re.search(r"SEED \S+ caught by:(.*)", r.stdout)
    fired = m.group(1).split() if m else ["?"]
    d = os.path.join(VERIF, "benign", name)
    os.makedirs(d, exist_ok=True)
    shutil.copy(os.path.join(seed, "patch.diff"), os.path.join(d, "patch.diff"))
    if os.path.exists(os.path.join(seed, "argument.md")):
        shutil.copy(os.path.join(seed, "argument.md"), os.path.join(d, "argument.md"))
    meta["origin"] = "independent sub-agent (%s) asked for a behaviour-preserving refactor, given the property text and a scratch worktree of /repo (HEAD %s)" % (
        tag, subprocess.check_output(["git", "-C", "/repo", "rev-parse", "--short", "HEAD"], text=True).strip())
    meta["suite_with_patch"] = suite
    meta["checks_fired_when_first_evaluated"] = fired
    with open(os.path.join(d, "meta.json"), "w") as fh:
        json.dump(meta, fh, indent=1)
    print(name, suite[:40], "FIRED=%s" % fired if fired else "silent")
    for l in list(dict.fromkeys(l.strip() for l in r.stdout.splitlines() if l.strip().startswith(("rule=", "[dbg]", "[rel]"))))[:14]:
        print("   ", l[:260])
    subprocess.run(["git", "-C", "/repo", "worktree", "remove", "--force", wt])


def finish(tag, pid, name, origin_note=""):
    wt = "/tmp/%s-%s" % (tag, pid)
    seed = os.path.join(wt, "SEED")
    meta = json.load(open(os.path.join(seed, "meta.json")))
    rel = "--release" if meta.get("release_only") else ""
    # confirm
    env = dict(os.environ)
    subprocess.run("mkdir -p examples && cp SEED/demo.rs examples/seed_demo.rs", shell=True, cwd=wt)
    r = subprocess.run("cargo test --offline --lib 2>&1 | grep -E '^test result' | head -1", shell=True, cwd=wt, stdout=subprocess.PIPE, text=True)
    suite = r.stdout.strip()
    with_p = subprocess.run("cargo run --offline %s --example seed_demo >/dev/null 2>&1" % rel, shell=True, cwd=wt).returncode
    subprocess.run("git apply -R SEED/patch.diff", shell=True, cwd=wt)      # never `git stash`: the stash is shared by all worktrees
    without_p = subprocess.run("cargo run --offline %s --example seed_demo >/dev/null 2>&1" % rel, shell=True, cwd=wt).returncode
    subprocess.run("git apply SEED/patch.diff && rm -rf examples", shell=True, cwd=wt)
    # evaluate
    r = subprocess.run([os.path.join(VERIF, "tools", "eval_seed.sh"), pid, os.path.join(seed, "patch.diff")],
                       stdout=subprocess.PIPE, stderr=subprocess.STDOUT, text=True)
    m = re.search(r"SEED \S+ caught by:(.*)", r.stdout)
    caught = m.group(1).split() if m else []
    d = os.path.join(VERIF, "seeded", name)
    os.makedirs(d, exist_ok=True)
    shutil.copy(os.path.join(seed, "patch.diff"), os.path.join(d, "patch.diff"))
    shutil.copy(os.path.join(seed, "demo.rs"), os.path.join(d, "demo.rs"))
    meta["origin"] = "independent sub-agent (%s) given the property text and a scratch worktree of /repo (HEAD %s)%s" % (
        tag, subprocess.check_output(["git", "-C", "/repo", "rev-parse", "--short", "HEAD"], text=True).strip(), origin_note)
    meta["caught_by"] = caught
    meta["confirmed"] = {
        "suite_with_patch": "235 passed; 0 failed" if "235 passed; 0 failed" in suite else "UNCONFIRMED: " + suite,
        "demo_with_patch": "fails (exit %d)" % with_p if with_p != 0 else "UNCONFIRMED (exit 0)",
        "demo_without_patch": "passes (exit 0)" if without_p == 0 else "UNCONFIRMED (exit %d)" % without_p,
        "how": "in the scratch worktree: cargo test --offline --lib with the patch; demo as examples/seed_demo.rs via cargo run "
               "--offline %s --example seed_demo with the patch and after git apply -R of the patch" % rel,
    }
    meta["checks_run"] = "every claimed ./check <pid> --repo <scratch copy with patch> --no-write; caught_by lists the properties whose check exits 1"
    with open(os.path.join(d, "meta.json"), "w") as fh:
        json.dump(meta, fh, indent=1)
    ok = meta["confirmed"]["suite_with_patch"].startswith("235") and with_p != 0 and without_p == 0
    print(name, "CONFIRMED" if ok else "NOT-CONFIRMED", "caught_by=%s" % caught, "TARGET-MISSED" if pid not in caught else "")
    rules = [l.strip() for l in r.stdout.splitlines() if l.strip().startswith("rule=")]
    for l in list(dict.fromkeys(rules))[:6]:
        print("   ", l[:200])
    subprocess.run(["git", "-C", "/repo", "worktree", "remove", "--force", wt])


if __name__ == "__main__":
    if sys.argv[1] == "prep":
        prep(sys.argv[2], sys.argv[3], open(sys.argv[4]).read().strip())
    elif sys.argv[1] == "finish":
        finish(sys.argv[2], sys.argv[3], sys.argv[4])
    elif sys.argv[1] == "prep-benign":
        prep_benign(sys.argv[2], sys.argv[3], open(sys.argv[4]).read().strip() if len(sys.argv) > 4 else "")
    elif sys.argv[1] == "finish-benign":
        finish_benign(sys.argv[2], sys.argv[3], sys.argv[4])
