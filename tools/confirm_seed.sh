#!/bin/bash
# confirm a seeded change in its scratch worktree: suite passes with the patch, demo fails with / passes without
wt=$1
cd $wt || exit 2
out=$wt/SEED/confirm.txt
: > $out
git diff -- src > /tmp/$(basename $wt).cur.diff
echo "patch applied: $(git diff --stat -- src | tail -1)" >> $out
mkdir -p examples && cp SEED/demo.rs examples/seed_demo.rs
rel=$(python3 -c "import json;print('--release' if json.load(open('SEED/meta.json')).get('release_only') else '')")
echo "suite(with patch): $(cargo test --offline --lib 2>&1 | grep -E '^test result' | head -1)" >> $out
cargo run --offline $rel --example seed_demo >/dev/null 2>&1; echo "demo(with patch) exit=$?" >> $out
git stash -q -- src
cargo run --offline $rel --example seed_demo >/dev/null 2>&1; echo "demo(without patch) exit=$?" >> $out
git stash pop -q
rm -rf examples
echo "patch re-applied: $(git diff --stat -- src | tail -1)" >> $out
cat $out
