NTH_OLD = "        if n < self.range.end - self.range.start {\n            let bit = self.bv.get(self.range.start + n);\n            self.range.start += n + 1;\n            Some(bit)\n        } else {\n            self.range.start = self.range.end;\n            None\n        }\n    }\n}\n\nimpl<B: BitVector> DoubleEndedIterator"
PROBES = [
 ("BI2-nth-early-return-then-next", "src/iter.rs", NTH_OLD,
  "        let remaining = self.range.end - self.range.start;\n        if n >= remaining {\n            self.range.start = self.range.end;\n            return None;\n        }\n        self.range.start += n;\n        self.next()\n    }\n}\n\nimpl<B: BitVector> DoubleEndedIterator", "benign"),
 ("BI3-last-eq", "src/iter.rs", "    fn last(self) -> Option<Self::Item> {\n        if self.range.start < self.range.end {\n            Some(self.bv.get(self.range.end - 1))\n        } else {\n            None\n        }",
  "    fn last(self) -> Option<Self::Item> {\n        if self.range.start == self.range.end {\n            None\n        } else {\n            Some(self.bv.get(self.range.end - 1))\n        }", "benign"),
 ("BI5-size-hint-let", "src/iter.rs", "        let remaining = self.range.end - self.range.start;\n        (remaining, Some(remaining))", "        let r = self.range.len();\n        (r, Some(r))", "benign (Range::len = end - start, saturating)"),
 ("BI6-count-via-size-hint", "src/iter.rs", "    fn count(self) -> usize {\n        self.range.end - self.range.start\n    }", "    fn count(self) -> usize {\n        self.size_hint().0\n    }", "benign"),
 ("BI7-last-via-next-back", "src/iter.rs", "    fn last(self) -> Option<Self::Item> {\n        if self.range.start < self.range.end {\n            Some(self.bv.get(self.range.end - 1))\n        } else {\n            None\n        }",
  "    fn last(mut self) -> Option<Self::Item> {\n        self.next_back()", "benign"),
 ("BI8-next-match-range", "src/iter.rs", "        if self.range.start < self.range.end {\n            let bit = self.bv.get(self.range.start);\n            self.range.start += 1;\n            Some(bit)\n        } else {\n            None\n        }",
  "        self.range.next().map(|i| self.bv.get(i))", "benign (delegates to Range's own iterator)"),
 ("XI1-nth-back-off-by-one", "src/iter.rs", "            self.range.end -= n + 1;\n            Some(self.bv.get(self.range.end))", "            self.range.end -= n;\n            Some(self.bv.get(self.range.end - 1))", "break C17 (state: end should drop by n+1)"),
 ("XI2-next-back-le", "src/iter.rs", "    fn next_back(&mut self) -> Option<Self::Item> {\n        if self.range.start < self.range.end {", "    fn next_back(&mut self) -> Option<Self::Item> {\n        if self.range.start + 1 < self.range.end {", "break C17"),
]
