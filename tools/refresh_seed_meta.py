#!/usr/bin/env python3
"""Re-evaluate every seeded change against all 17 checks and refresh `caught_by` in its meta.json (the list the self-test
replays). The list recorded when the seed was first evaluated is kept as `caught_by_when_first_evaluated`.
A seed whose *target* property is no longer caught is reported loudly and left unchanged."""
import json, os, shutil, subprocess, sys, tempfile
from concurrent.futures import ThreadPoolExecutor
VERIF = os.path.dirname(os.path.dirname(os.path.abspath(__file__)))
sys.path.insert(0, VERIF)
from rules import selftest
PIDS = ["C01", "C02", "C03", "C04", "C05", "C07", "C08", "C09", "C10", "C11", "C12", "C13", "C15", "C17", "C18", "C19", "C20"]

def one(item):
    name, patch, meta = item
    tmp = tempfile.mkdtemp(prefix="bva-refresh-")
    try:
        selftest._copy_tree("/repo", tmp)
        r = subprocess.run(["patch", "-p1", "-s", "-i", patch], cwd=tmp, stdout=subprocess.PIPE, stderr=subprocess.STDOUT, text=True)
        if r.returncode != 0:
            return name, None
        fired = []
        for pid in PIDS:
            rc, out = selftest._run_check(pid, tmp, os.path.join(tmp, ".cache"))
            if rc == 1 and "VIOLATION property=%s" % pid in out and "ANALYSIS-ERROR" not in out:
                fired.append(pid)
            elif "ANALYSIS-ERROR" in out:
                fired.append(pid + "!crash")
        return name, fired
    finally:
        shutil.rmtree(tmp, ignore_errors=True)

if __name__ == "__main__":
    items = selftest.seeded_mutants()
    with ThreadPoolExecutor(max_workers=int(os.environ.get("WORKERS", "6"))) as ex:
        for (name, fired), (n2, patch, meta) in zip(ex.map(one, items), items):
            if fired is None:
                print(name, "PATCH-FAILED"); continue
            crashes = [f for f in fired if f.endswith("!crash")]
            fired = [f for f in fired if not f.endswith("!crash")]
            target = meta["property"]
            flag = "" if target in fired else "   <<< TARGET NOT CAUGHT"
            if crashes:
                flag += "   <<< CRASH in %s" % crashes
            if fired != meta.get("caught_by"):
                print("%-62s %s -> %s%s" % (name, meta.get("caught_by"), fired, flag))
            elif flag:
                print(name, flag)
            if target in fired and not crashes:
                meta.setdefault("caught_by_when_first_evaluated", meta.get("caught_by"))
                meta["caught_by"] = fired
                with open(os.path.join(VERIF, "seeded", name, "meta.json"), "w") as fh:
                    json.dump(meta, fh, indent=1)
