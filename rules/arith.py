"""DECR (guarded decrement / division by a length), OVF (caller-supplied counts in checked
arithmetic, scoped to BitIterator) and NARROW (shift-amount narrowing). DESIGN §4.
All three are evaluated on the `dbg` configuration, where each checked operation carries an
Assert(Overflow(..)) / Assert(RemainderByZero) terminator that marks the site.
"""
import re

from . import mir, guard
from .mir import show, is_call, is_bin, walk, contains

POS_CONST_NAMES = ("BIT_UNIT", "NIBBLE_UNIT", "BYTE_UNIT", "BITS")


def is_pos_const(e):
    e = mir.strip_casts(e)
    if e[0] == "int":
        return e[1] >= 1
    if e[0] == "assoc" and e[1] in POS_CONST_NAMES:
        return True
    if is_call(e, ("size_of", "align_of")):
        return True
    if is_bin(e, "Mul"):
        return is_pos_const(e[2]) and is_pos_const(e[3])
    if is_bin(e, "Div") and e[3][0] == "int":
        return is_pos_const(e[2])
    return False


# value-level sites: (function name, shown expression fragment) -> reason
DECR_TABLE = [
    ("from_binary", "count(chars(as_ref(string))) - 1", "inside the loop over chars(): the loop body runs only when the count is >= 1"),
    ("from_hex", "count(chars(as_ref(string))) - 1", "inside the loop over chars(): the loop body runs only when the count is >= 1"),
    ("from_binary", "- iv", "i < count for an enumerate() index"),
    ("from_hex", "- iv", "i < count for an enumerate() index"),
    ("from_bytes", "len(as_ref(bytes)) - 1", "inside the loop over the bytes: runs only when there is >= 1 byte"),
    ("from_bytes", "- iv", "i < len for an enumerate() index"),
    ("from_binary", "len(data) - 1", "Bvd: inside the loop over chars(), data has cap(count) >= 1 words"),
    ("from_hex", "len(data) - 1", "Bvd: inside the loop over chars(), data has >= 1 words"),
    ("from_bytes", "len(data) - 1", "Bvd: inside the loop over bytes, data has >= 1 words"),
    ("leading_zeros", "leading_zeros(v) -", "v is masked to lastbit bits, so it has >= BIT_UNIT - lastbit leading zeros"),
    ("leading_ones", "leading_ones(v) -", "v has all bits above lastbit set, so it has >= BIT_UNIT - lastbit leading ones"),
    ("leading_zeros", "BIT_UNIT - ", "lastbit = (len-1) % BU + 1 <= BU"),
    ("leading_ones", "BIT_UNIT - ", "lastbit = (len-1) % BU + 1 <= BU"),
    ("shl_assign", "new_idx - min(", "l <= (new_idx-1) % BU + 1 <= new_idx"),
    ("shl", "new_idx - min(", "l <= (new_idx-1) % BU + 1 <= new_idx"),
    ("shl_assign", "new_idx - ((wrapping_sub(new_idx, 1)", "l = (new_idx-1) % BU + 1 <= new_idx inside `while new_idx > 0`"),
    ("{closure}", "_1.0.length - (_1.1 * BITS)", "closure of get_int: runs under the enclosing guard idx * BITS < self.length"),
    ("shl_in", "self.length % BIT_UNIT - 1", "inside `if self.length % BIT_UNIT != 0`"),
    ("shr_in", "self.length % BIT_UNIT - 1", "inside `if self.length % BIT_UNIT != 0`"),
    ("nth_back", "self.range.end - (n + 1)", "n < end - start was just checked, so n + 1 <= end - start <= end"),
    ("try_from", "BITS - leading_zeros(int)", "leading_zeros(x) <= BITS"),
    ("wmul", "(1 << (BITS / 2)) - 1", "constant"),
    ("significant_bits", "len(self) - leading_zeros(self)", "leading_zeros <= len is the contract of leading_zeros (C16, not decided)"),
    ("rotl", "self.length - ", "inside `while idx < self.length`, and x % self.length < self.length"),
    ("rotr", "self.length - ", "inside `while idx < self.length`, and x % self.length < self.length"),
    ("trailing_zeros", "self.length - 1", "inside `if 0 < capacity_from_bit_len(self.length)`, i.e. length > 0"),
    ("trailing_ones", "self.length - 1", "inside `if 0 < capacity_from_bit_len(self.length)`, i.e. length > 0"),
    ("leading_zeros", "self.length - 1", "inside `if capacity_from_bit_len(self.length) > 0`, i.e. length > 0"),
    ("leading_ones", "self.length - 1", "inside `if capacity_from_bit_len(self.length) > 0`, i.e. length > 0"),
    ("size_hint", "self.range.end - self.range.start", "iterator invariant start <= end (every update keeps it; see C17 INV rule)"),
    ("count", "self.range.end - self.range.start", "iterator invariant start <= end"),
    ("nth", "self.range.end - self.range.start", "iterator invariant start <= end"),
    ("nth_back", "self.range.end - self.range.start", "iterator invariant start <= end"),
]


def decr_sites(crate):
    """yield (body, key, verdict, msg) for every checked subtraction and every division/remainder by a
    non-constant, in the dbg configuration"""
    assert crate.overflow_checks, "DECR is evaluated on the configuration with overflow checks"
    for b in crate.bodies:
        items = []
        for bb, t in b.iter_asserts():
            k = t["kind"]
            if k == "Overflow(Sub)":
                a, c = (b.e_operand(o) for o in t["ops"])
                v, msg = _discharge_sub(b, bb, a, c)
                items.append(("%s|%s - %s" % (b.key, show(a, False), show(c, False)), bb, v, msg))
            elif k in ("DivisionByZero", "RemainderByZero"):
                # the divisor is the second operand of the Div/Rem that follows the assert
                div = _divisor_after(b, t["to"])
                if div is None or is_pos_const(div):
                    continue
                v, msg = _discharge_nonzero(b, bb, div)
                items.append(("%s|_ %s %s" % (b.key, "/" if k[0] == "D" else "%", show(div, False)), bb, v, msg))
        seen = set()
        for key, bb, v, msg in items:
            if key in seen:
                continue
            seen.add(key)
            yield b, key, v, msg


def _divisor_after(b, blk):
    for st in b.blocks[blk]["st"]:
        if st["s"] == "assign" and st["r"]["k"] == "bin" and st["r"]["op"] in ("Div", "Rem"):
            return b.e_operand(st["r"]["b"])
    return None


def _relations_at(b, bb):
    rels = []
    for sb, cond, taken, succ, other in guard.edges_dominating(b, bb):
        rels += guard.relations_on_edge(cond, taken)
    # `match x { 0 => .., l => .. }`: switch on an integer with a 0 target not taken
    for sb, t in b.iter_switches():
        e, m = b.switch_cond(sb)
        if e[0] == "discr":
            continue
        for s in b.succ[sb]:
            vals = m.get(s, [])
            if "0" not in vals and b.edge_dominates((sb, s), bb) and sb != bb:
                zero_t = [x for x in b.succ[sb] if "0" in m.get(x, [])]
                if zero_t and zero_t[0] != s:
                    rels.append(("Ne", e, ("int", 0)))
    return rels


def _known_positive(b, bb, x, rels):
    for op, l, r in rels:
        if l == x and ((op in ("Gt", "Ne") and r == ("int", 0)) or (op == "Ge" and r == ("int", 1)) or op == "Gt"):
            return "guarded by %s %s %s" % (show(l), mir.SYM[op], show(r))
        if r == x and op == "Lt":
            return "guarded by %s < %s" % (show(l), show(r))
        # !is_empty / len == 0 early return
    # cap(L) > 0 |- L - 1
    for op, l, r in rels:
        if is_call(l, "capacity_from_bit_len") and l[3] == (x,) and op in ("Gt", "Ne") and r == ("int", 0):
            return "guarded by capacity_from_bit_len(%s) > 0" % show(x)
        if is_call(r, "capacity_from_bit_len") and r[3] == (x,) and op == "Lt":
            return "guarded by _ < capacity_from_bit_len(%s)" % show(x)
    return None


def _discharge_sub(b, bb, a, c):
    # structurally safe forms
    if is_call(c, "min") and a in c[3]:
        return "pass", "a - min(a, _)"
    if is_bin(c, "Rem") and c[3] == a:
        return "pass", "c - x % c"
    if is_bin(a, "Add") and c == ("int", 1) and (is_pos_const(a[3]) or is_pos_const(a[2])):
        return "pass", "(x + positive constant) - 1"
    if a[0] == "int" and c[0] == "int" and a[1] >= c[1]:
        return "pass", "constants"
    if is_pos_const(a) and c == ("int", 1):
        return "pass", "positive constant - 1"
    rels = _relations_at(b, bb)
    # loop induction: n - i / (n - i) - 1 with i in 0..n
    for x in (c, a):
        pass
    if c[0] == "iv":
        src = b.iter_source(c[1])
        src = _strip_iter_adaptors(src)
        if src and src[0] == "agg" and src[1].startswith("Range") and src[3][1] == a:
            return "pass", "n - i with i in _..n"
    if c == ("int", 1) and is_bin(a, "Sub") and a[3][0] == "iv":
        src = _strip_iter_adaptors(b.iter_source(a[3][1]))
        if src and src[0] == "agg" and src[1].startswith("Range") and src[3][1] == a[2]:
            return "pass", "n - i - 1 with i in _..n"
    # a - b under a >= b / a > b / not (b > a)
    for op, l, r in rels:
        if l == a and r == c and op in ("Ge", "Gt"):
            return "pass", "guarded by %s %s %s" % (show(a), mir.SYM[op], show(c))
        # idx*K < len |- len - idx*K
        if l == c and r == a and op in ("Lt", "Le"):
            return "pass", "guarded by %s %s %s" % (show(c), mir.SYM[op], show(a))
    if c[0] == "int" and c[1] == 1:
        why = _known_positive(b, bb, a, rels)
        if why:
            return "pass", why
        # `if x.is_empty() { .. } else { len(x) - 1 }` (is_empty is the un-overridden default len() == 0, see DEFS/ORDER)
        if is_call(a, "len") and len(a[3]) == 1:
            for sb, cond, taken, succ, other in guard.edges_dominating(b, bb):
                if is_call(cond, "is_empty") and cond[3] == a[3] and not taken:
                    return "pass", "guarded by !is_empty(%s)" % show(a[3][0])
        # `if self.is_empty() { return .. } .. self.length - 1`: is_empty() is len() == 0 and len() is the length field (DEFS)
        if a[0] == "field" and a[2] == "length":
            for sb, cond, taken, succ, other in guard.edges_dominating(b, bb):
                if is_call(cond, "is_empty") and len(cond[3]) == 1 and cond[3][0] == a[1] and not taken:
                    return "pass", "guarded by !is_empty(%s)" % show(a[1])
        # x += 1; x - 1  (same block, the store precedes)
        for st in b.blocks[bb]["st"]:
            if st["s"] == "assign" and st["p"]["pr"]:
                if b.e_place(st["p"]) == a:
                    v = b.e_rvalue(st["r"])
                    if is_bin(v, "Add") and v[3] == ("int", 1):
                        return "pass", "x += 1; x - 1"
        # incremented in a dominating block
        for pb in b.reachable_blocks():
            if pb != bb and b.block_dominates(pb, bb):
                for st in b.blocks[pb]["st"]:
                    if st["s"] == "assign" and st["p"]["pr"] and b.e_place(st["p"]) == a:
                        v = b.e_rvalue(st["r"])
                        if is_bin(v, "Add") and v[3] == ("int", 1) and v[2] == a:
                            return "pass", "x += 1; x - 1"
        # early return on is_empty(x) for int_len(x) - 1
        if is_call(a, "int_len"):
            for sb, cond, taken, succ, other in guard.edges_dominating(b, bb):
                if is_call(cond, "is_empty") and cond[3] == a[3] and not taken:
                    return "pass", "guarded by !is_empty(%s) (int_len > 0 iff len > 0)" % show(a[3][0])
    # affine reasoning over the dominating guards (all atoms are unsigned): c <= a follows from one guard, or from two
    why = _affine_le(c, a, _fresh_relations(b, bb, rels))
    if why:
        return "pass", why
    # table
    txt = "%s - %s" % (show(a, False), show(c, False))
    for fname, frag, reason in DECR_TABLE:
        if b.name == fname and frag in txt:
            prem = _table_premise(b, bb, reason)
            if prem is not None:
                return "unmatched", "`%s`: the table entry assumes it is %s, but it is not" % (txt[:80], prem)
            if "inside the loop" in reason or reason.startswith("Bvd: inside the loop"):
                # the table entry is only valid where it says it is: inside a loop body
                if not any(bb in body for hdr, body in b.loops()):
                    return "unmatched", ("`%s` is evaluated outside the loop over the characters/bytes: it underflows for an "
                                         "empty input (panic with overflow checks)" % txt[:100])
            return "trusted", reason
    # neither proved nor tabled: look for concrete values of the opaque terms, consistent with the dominating guards (and with
    # the storage invariant cap(len) <= data.len()), for which the subtraction does underflow. A model is a finding; when there
    # is none in the search domain the site is merely not decided.
    m = _underflow_model(b, bb, a, c, _fresh_relations(b, bb, rels))
    if m is None:
        return "undecided", "checked subtraction `%s`: no underflowing values found under the dominating guards, no proof either" % txt[:120]
    if m == "unknown":
        return "unmatched", "checked subtraction `%s` is not dominated by a guard implying it cannot underflow" % txt[:140]
    return "unmatched", ("checked subtraction `%s` is not dominated by a guard implying it cannot underflow (e.g. %s)"
                         % (txt[:120], ", ".join("%s = %d" % (show(k)[:28], v) for k, v in m.items())))


def _underflow_model(b, bb, a, c, rels):
    """{leaf: value} with every relation satisfied and a < c; None if no such assignment exists in the search domain;
    'unknown' when the expressions cannot be evaluated (too many opaque terms, loop counters of unmodelled iterators)"""
    import itertools
    from . import lenflow
    crate = b.crate

    def canon(x):
        return lenflow.canon(crate, mir.strip_casts(x))

    a2, c2 = canon(a), canon(c)
    rels2 = [(op, canon(l), canon(r)) for op, l, r in rels if op in lenflow._OPS]
    # loop counters: bounded by their range when it is known
    for x in list(walk(a2)) + list(walk(c2)):
        if isinstance(x, tuple) and x[:1] == ("iv",) and len(x) == 2:
            sh = b.iter_shape(x[1])
            if sh is None or sh.get("hi") is None or not sh["plain_range"]:
                src = _strip_iter_adaptors(b.iter_source(x[1]))
                if not (src and src[0] == "agg" and src[1] == "Range" and len(src[3]) == 2):
                    return "unknown"
                lo, hi = src[3]
            else:
                lo, hi = sh["lo"], sh["hi"]
            rels2.append(("Ge", x, canon(lo)))
            rels2.append(("Lt", x, canon(hi)))
    target = []
    for x in (a2, c2):
        lenflow._leaves(x, target)
    # only the guards that speak about the terms of the subtraction itself take part (a guard on something else neither
    # helps nor hurts; one that mixes in a foreign term is left out, which can only make the search find more models)
    kept = []
    for op, l, r in rels2:
        ls = []
        lenflow._leaves(l, ls)
        lenflow._leaves(r, ls)
        if ls and all(x in target for x in ls):
            kept.append((op, l, r))
    rels2 = kept
    leaves = list(target)
    # storage invariant of the vector types: the used words exist
    sl = ("field", ("param", "self"), "length")
    for lf in list(leaves):
        if is_call(lf, "len") and len(lf[3]) == 1 and mir.strip_casts(lf[3][0]) == ("field", ("param", "self"), "data") and b.self_family == "Bvd":
            rels2.append(("Le", ("call", "capacity_from_bit_len", None, (sl,), ()), lf))
            if sl not in leaves:
                leaves.append(sl)
    if len(leaves) > 4 or any(lf[0] in ("unknown", "phi", "ivopt") for lf in leaves):
        return "unknown"
    doms = [lenflow.WIDTH_DOMAIN if (lf[0] == "assoc" and lf[1] == "BITS") else lenflow.LEN_DOMAIN + (2, 3, 130) for lf in leaves]
    seen_valid = False
    for combo in itertools.product(*doms):
        env = dict(zip(leaves, combo))
        try:
            if not all(lenflow._OPS[op](lenflow._eval(l, env), lenflow._eval(r, env)) for op, l, r in rels2):
                continue
            av, cv = lenflow._eval(a2, env), lenflow._eval(c2, env)
        except lenflow.NoValue:
            continue
        seen_valid = True
        if av < cv:
            return env
    return None if seen_valid else "unknown"


def _fresh_relations(b, bb, rels):
    """drop relations about a mutable local that is re-assigned on every path between the guard and the site (a store in a
    block that dominates the site, other than the local's first definition): `while x > s { x -= l; .. x - s .. }`"""
    out = []
    for op, l, r in rels:
        stale = False
        for e in (l, r):
            for x in walk(e):
                if isinstance(x, tuple) and x[:1] == ("var",) and len(x) > 2:
                    ds = sorted(d[2:] for d in b.defs.get(x[2], []))
                    for d in ds[1:]:
                        if d[0] == bb or b.block_dominates(d[0], bb):
                            stale = True
        if not stale:
            out.append((op, l, r))
    return out


def _lin(e):
    co, k = mir.linear(mir.strip_casts(e))
    return co, k


def _upper_bounds(e, depth=0):
    """expressions that are >= e for unsigned operands: min(x, y) <= x, y ; x % m <= x ; x / m <= x ; x - y <= x (when the
    subtraction itself does not wrap, which is DECR's own obligation at that site); constants fold through + c"""
    out = [e]
    if depth > 3:
        return out
    if is_call(e, "min") and len(e[3]) == 2:
        for x in e[3]:
            out += _upper_bounds(x, depth + 1)
    elif is_bin(e, "Rem") or is_bin(e, "Div") or is_bin(e, "Shr"):
        out += _upper_bounds(e[2], depth + 1)
    elif is_bin(e, "Add"):
        for x in _upper_bounds(e[2], depth + 1):
            for y in _upper_bounds(e[3], depth + 1):
                if (x, y) != (e[2], e[3]):
                    out.append(("bin", "Add", x, y))
    elif is_bin(e, "Sub"):
        for x in _upper_bounds(e[2], depth + 1):
            if x != e[2]:
                out.append(("bin", "Sub", x, e[3]))
    elif e[0] == "cast":
        out += _upper_bounds(e[1], depth + 1)
    return out


def _affine_le(c, a, rels):
    """c <= a from the relations `rels` holding at the site; returns a justification or None"""
    def form(x, y, strict):
        # x - y (- 0/+...) as lt0 form: x < y  ->  x - y < 0 ; x <= y -> x - y - 1 < 0
        cx, kx = _lin(x)
        cy, ky = _lin(y)
        co = dict(cx)
        for k2, v in cy.items():
            co[k2] = co.get(k2, 0) - v
        return {k2: v for k2, v in co.items() if v}, kx - ky - (0 if strict else 1)

    guards = []
    for op, l, r in rels:
        if op == "Lt":
            guards.append((form(l, r, True), "%s < %s" % (show(l), show(r))))
        elif op == "Le":
            guards.append((form(l, r, False), "%s <= %s" % (show(l), show(r))))
        elif op == "Ne" and r == ("int", 0):
            guards.append((form(("int", 1), l, False), "%s != 0" % show(l)))
    for ub in _upper_bounds(c):
        tco, tk = form(ub, a, False)         # want ub - a - 1 < 0
        def implied(gs):
            co = dict(tco)
            k = tk
            for (gco, gk), _ in gs:
                for k2, v in gco.items():
                    co[k2] = co.get(k2, 0) - v
                k -= gk
            slack = len(gs) - 1 if gs else 0      # g1 <= -1 and g2 <= -1 give g1 + g2 <= -2
            return all(v <= 0 for v in co.values()) and k <= slack and (gs or k < 0 or (k <= 0 and False))
        if all(v <= 0 for v in tco.values()) and tk < 0:
            return "%s <= %s holds for unsigned operands%s" % (show(ub), show(a), "" if ub == c else " (and %s <= %s)" % (show(c), show(ub)))
        for g in guards:
            if implied([g]):
                return "guarded by %s%s" % (g[1], "" if ub == c else " (with %s <= %s)" % (show(c)[:40], show(ub)[:40]))
        for i, g1 in enumerate(guards):
            for g2 in guards[i + 1:]:
                if implied([g1, g2]):
                    return "guarded by %s and %s" % (g1[1], g2[1])
    return None


def _table_premise(b, bb, reason):
    """verify the guard a DECR table entry names; returns a description of the missing premise or None"""
    rels = None

    def have(pred):
        nonlocal rels
        if rels is None:
            rels = _relations_at(b, bb)
        return any(pred(op, l, r) for op, l, r in rels)

    sl = ("field", ("param", "self"), "length")
    if "inside `if self.length % BIT_UNIT != 0`" in reason:
        ok = have(lambda op, l, r: op == "Ne" and is_bin(l, "Rem") and l[2] == sl and r == ("int", 0))
        return None if ok else "inside `if self.length % BIT_UNIT != 0`"
    if "inside `while idx < self.length`" in reason:
        ok = have(lambda op, l, r: op == "Lt" and r == sl)
        return None if ok else "inside `while idx < self.length`"
    if "i.e. length > 0" in reason:
        ok = have(lambda op, l, r: (op in ("Gt", "Ne") and is_call(l, "capacity_from_bit_len") and r == ("int", 0))
                  or (op == "Lt" and is_call(r, "capacity_from_bit_len")) or (op == "Gt" and l[0] == "var" and r == ("int", 0)))
        return None if ok else "inside a branch implying capacity_from_bit_len(self.length) > 0"
    if "n < end - start was just checked" in reason:
        ok = have(lambda op, l, r: op == "Lt" and l[0] == "param" and is_bin(r, "Sub"))
        return None if ok else "guarded by n < end - start"
    if "inside `while new_idx > 0`" in reason:
        ok = have(lambda op, l, r: op == "Gt" and l[0] == "var" and r == ("int", 0))
        return None if ok else "inside `while new_idx > 0`"
    return None


def _strip_iter_adaptors(e):
    while e and is_call(e, ("rev", "enumerate", "into_iter")) and e[3]:
        e = e[3][0]
    return e


def _discharge_nonzero(b, bb, div):
    rels = _relations_at(b, bb)
    for op, l, r in rels:
        if r == div and op == "Lt":
            return "pass", "guarded by %s < %s" % (show(l), show(r))
        if l == div and ((op in ("Gt", "Ne") and r == ("int", 0)) or op == "Gt"):
            return "pass", "guarded by %s %s %s" % (show(l), mir.SYM[op], show(r))
    return "unmatched", "division/remainder by `%s` is not dominated by a guard implying it is non-zero" % show(div)


# --------------------------------------------------------------------------------------------
# OVF: BitIterator
# --------------------------------------------------------------------------------------------

# --------------------------------------------------------------------------------------------
# NARROW
# --------------------------------------------------------------------------------------------

def narrowing(crate):
    """shift amounts narrowed to usize must saturate: usize::try_from(rhs).map_or(D, ..) / unwrap_or(D) with
    D == usize::MAX; `as usize` truncation is flagged."""
    res = []
    for b in crate.bodies:
        if b.trait not in ("Shl", "Shr", "ShlAssign", "ShrAssign") or b.self_family not in ("Bvf", "Bvd", "Bv"):
            continue
        if b.arg_count < 2:
            continue
        rhs = ("param", b.local_name(2))
        found = False
        # expression-based (sees through a helper introduced later that wraps the narrowing): every
        # unwrap_or/map_or(usize::try_from(rhs), D) occurring in the body
        seenD = []
        for bb, t, fn in b.iter_calls():
            if fn is None:
                continue
            for e in walk(b.e_call(t)):
                if is_call(e, ("map_or", "unwrap_or")) and len(e[3]) >= 2 and is_call(e[3][0], "try_from") and tuple(e[3][0][3]) == (rhs,) \
                        and e[3][1] not in seenD:
                    seenD.append(e[3][1])
        for D in seenD:
            if True:
                found = True
                key = "%s|narrowing default" % b.key
                isma = (D[0] == "assoc" and D[1] == "MAX" and "usize" in (D[2] or "")) or D == ("int", 2 ** 64 - 1)
                if isma:
                    res.append((b, key, "pass", "amounts that do not fit usize saturate to usize::MAX (>= every length)"))
                else:
                    res.append((b, key, "violation",
                                "shift amount that does not fit usize becomes %s: the vector is shifted by that instead of being cleared"
                                % show(D)))
        # `as usize` truncation of the amount
        for bb, i, st in b.iter_stmts():
            if st["s"] == "assign" and st["r"]["k"] == "cast" and st["r"]["ck"] == "IntToInt":
                src = b.e_operand(st["r"]["o"])
                if src == rhs and mir.short_ty(st["r"]["ty"]) == "usize" and not b.locals[2]["ty"] == "usize":
                    found = True
                    wide = b.locals[2]["ty"] in ("u128",)   # on this 64-bit target only u128 is wider than usize
                    res.append((b, "%s|as usize" % b.key, "violation" if wide else "pass",
                                "shift amount narrowed with a truncating `as usize`" if wide else "widening cast"))
        if not found:
            res.append((b, "%s|forwarder" % b.key, "n/a", "no narrowing here (forwards the amount unchanged)"))
    return res


# ---------------------------------------------------------------------------------------------
# NOPANIC: bounds checks and explicit panics in functions that must never panic (C11: vector -> integer)
# ---------------------------------------------------------------------------------------------

def _strip_iter_adapters(e):
    while isinstance(e, tuple) and e[0] == "call" and e[1] in ("rev", "into_iter", "skip", "take", "step_by") and e[3]:
        e = e[3][0]
    return e


def _storage_owner(arr):
    """`len(X.data)` / `len(deref(X.data))` / N -> ('data', X) | ('array', None) | None"""
    if arr == ("cparam", "N"):
        return ("array", None)
    if is_call(arr, "len") and arr[3]:
        arr = arr[3][0]
    for x in walk(arr):
        if isinstance(x, tuple) and x and x[0] == "field" and x[2] == "data":
            return ("data", x[1])
    return None


def _upper_ok(hi, owner):
    """loop bound `hi` never exceeds the number of storage words of `owner`"""
    kind, X = owner
    if kind == "array" and hi == ("cparam", "N"):
        return "index ranges over 0..N"
    if is_call(hi, "capacity_from_bit_len") and hi[3]:
        a = hi[3][0]
        if X is not None and (a == ("field", X, "length") or (is_call(a, "len") and a[3] == (X,))):
            return "index < capacity_from_bit_len(%s.length) <= allocated words (len <= capacity, C18)" % show(X)
        if kind == "array" and (a == ("field", ("param", "self"), "length") or is_call(a, "len")):
            return "index < capacity_from_bit_len(len) <= N (len <= capacity, C19)"
    if X is not None and (is_call(hi, "len") or (hi[0] == "un" and hi[1] == "PtrMetadata")) \
            and contains(hi, lambda x: x == ("field", X, "data")):
        return "index < %s.data.len()" % show(X)
    if is_call(hi, "min") and len(hi[3]) == 2:
        for a in hi[3]:
            r = _upper_ok(a, owner)
            if r:
                return r
    return None


def nopanic_sites(crate, want):
    """for every body selected by `want`: each bounds check must be discharged by a loop bound / dominating guard that
    keeps the index inside the storage, and there is no explicit panic. Unwraps are the UNWRAP family's business."""
    out = []
    for b in crate.bodies:
        if not want(b):
            continue
        n = 0
        for bb, t in b.iter_asserts():
            if t.get("kind") != "BoundsCheck":
                continue
            n += 1
            ln, idx = (b.e_operand(o) for o in t["ops"])
            key = "%s|index %s" % (b.key, show(idx, False))
            owner = _storage_owner(ln)
            why = None
            if owner and idx[0] == "iv":
                src = _strip_iter_adapters(b.iter_source(idx[1]))
                if src[0] == "agg" and "Range" in str(src[1]) and len(src[3]) == 2:
                    why = _upper_ok(src[3][1], owner)
                elif src[0] == "range" and len(src) >= 3:
                    why = _upper_ok(src[2], owner)
            rels = _relations_at(b, bb)
            if why is None:
                for op, l, r in rels:
                    if op == "Lt" and l == idx and (r == ln or (owner and _upper_ok(r, owner))):
                        why = "guarded by %s < %s" % (show(l), show(r))
            if why is None and owner and owner[0] == "data" and idx == ("int", 0):
                X = owner[1]
                for op, l, r in rels:
                    def is_storage_len(e):
                        return (is_call(e, "len") or (e[0] == "un" and e[1] == "PtrMetadata")) and contains(e, lambda x: x == ("field", X, "data"))
                    lower = (op in ("Gt", "Ge", "Ne") and is_storage_len(l)) or (op in ("Lt", "Le") and is_storage_len(r))
                    if lower and not (op in ("Ge", "Le") and ("int", 0) in (l, r)):
                        why = "guarded by %s %s %s" % (show(l), mir.SYM[op], show(r))
            if why:
                out.append((b, key, "pass", "bounds check discharged: " + why))
            else:
                out.append((b, key, "violation",
                            "index %s into %s can be out of bounds (e.g. an empty vector owns no storage word): this function "
                            "must never panic and nothing bounds the index (loop bound / dominating guard on the storage length)"
                            % (show(idx), show(ln))))
        for bb in b.panic_blocks():
            t = b.term(bb)
            fn = t["f"].get("fn") if t["f"]["k"] == "const" else None
            name = fn["name"] if fn else "<indirect>"
            if name in ("unwrap_failed", "expect_failed"):
                continue
            n += 1
            out.append((b, "%s|explicit %s" % (b.key, name), "violation",
                        "a diverging call (%s) is reachable in a function that must never panic" % name))
        if n == 0:
            out.append((b, "%s|no panic site" % b.key, "pass", "no bounds check and no diverging call in the body"))
    return out


# ---------------------------------------------------------------------------------------------
# OVF-SHIFT: overflow-checked arithmetic on the (saturated) shift amount inside the shift kernels
# ---------------------------------------------------------------------------------------------

def _is_bu(e):
    return isinstance(e, tuple) and e and e[0] == "assoc" and e[1] in ("BIT_UNIT", "BITS")


def _at_most_word(e, depth=0):
    """e <= BIT_UNIT for every input: x % BU, BU - (x % BU), min(..) with such an argument, (x % BU) + 1"""
    if depth > 4 or not isinstance(e, tuple):
        return False
    if is_bin(e, "Rem") and _is_bu(e[3]):
        return True
    if is_bin(e, "Sub") and _is_bu(e[2]) and is_bin(e[3], "Rem") and _is_bu(e[3][3]):
        return True
    if is_bin(e, "Add") and e[3] == ("int", 1) and is_bin(e[2], "Rem") and _is_bu(e[2][3]):
        return True
    if is_call(e, "min") and len(e[3]) == 2:
        return any(_at_most_word(a, depth + 1) for a in e[3])
    return False


def _magnitude(b, e, depth=0):
    """upper bound of an unsigned expression as a fraction of usize::MAX, or None when nothing is known. Used to show that a
    sum cannot overflow whatever the (saturated) shift amount is."""
    e = mir.strip_casts(e)
    if depth > 6:
        return None
    if e[0] == "int":
        return 0.0 if e[1] < (1 << 32) else None
    if is_bin(e, ("Div", "Shr")):
        if e[1] == "Div" and (_is_bu(e[3]) or (e[3][0] == "int" and e[3][1] >= 8)):
            m = _magnitude(b, e[2], depth + 1)
            return (1.0 if m is None else m) / 8
        return _magnitude(b, e[2], depth + 1)
    if is_bin(e, "Rem") and (_is_bu(e[3]) or e[3][0] == "int"):
        return 0.0
    if is_bin(e, "Add"):
        x, y = _magnitude(b, e[2], depth + 1), _magnitude(b, e[3], depth + 1)
        return None if x is None or y is None else x + y
    if is_bin(e, "Sub"):
        return _magnitude(b, e[2], depth + 1)
    if is_call(e, "min") and len(e[3]) == 2:
        ms = [m for m in (_magnitude(b, a, depth + 1) for a in e[3]) if m is not None]
        return min(ms) if ms else None
    if is_call(e, ("capacity_from_bit_len", "int_len")) or (is_call(e, "len") and "slice" in (e[2] or "")):
        return 1.0 / 16          # a number of allocated words: the allocation is at most isize::MAX bytes
    if e[:1] == ("iv",) and len(e) == 2:
        sh = b.iter_shape(e[1])
        hi = sh.get("hi") if sh else None
        if hi is None:
            src = _strip_iter_adaptors(b.iter_source(e[1]))
            if src and src[0] == "agg" and src[1] == "Range" and len(src[3]) == 2:
                hi = src[3][1]
        return _magnitude(b, hi, depth + 1) if hi is not None else None
    if e[0] == "var" and len(e) > 2:
        init = b.init_expr(e[2]) if len(b.full_defs(e[2])) == 1 else None
        return _magnitude(b, init, depth + 1) if init is not None else None
    if is_call(e, ("unwrap_or", "map_or")):
        return 1.0
    return None


def shift_amount_arith(crate):
    """The shift kernels saturate an amount that does not fit usize to usize::MAX, so any overflow-checked `+` / `*` that
    involves the amount is a build-profile divergence (panic with overflow checks, wrap-around without) unless it is one
    of the bounded forms:
      (.. % BIT_UNIT) + 1                          at most BIT_UNIT
      idx + (something <= BIT_UNIT)                idx < length <= usize::MAX - BIT_UNIT in practice (trusted)
      idx + amount  with idx a counter starting at 0 that only advances while idx + amount < length  (trusted: the
                                                   reviewed loop-guard idiom)
    Anything else - e.g. `word_index * BIT_UNIT + amount` evaluated for every word - is reported."""
    res = []
    for b in crate.bodies:
        if b.trait not in ("Shl", "Shr", "ShlAssign", "ShrAssign") or b.self_family not in ("Bvf", "Bvd") or b.arg_count < 2:
            continue
        rhs = ("param", b.local_name(2))

        def amount_dep(e):
            return contains(e, lambda z: is_call(z, ("unwrap_or", "map_or")) and z[3] and is_call(z[3][0], "try_from")
                            and tuple(z[3][0][3]) == (rhs,))

        seen = set()
        for bb, t in b.iter_asserts():
            if t["kind"] not in ("Overflow(Add)", "Overflow(Mul)"):
                continue
            x, y = (b.e_operand(o) for o in t["ops"])
            if not (amount_dep(x) or amount_dep(y)):
                continue
            key = "%s|%s %s %s" % (b.key, show(x, False)[:60], "+" if "Add" in t["kind"] else "*", show(y, False)[:60])
            key = re.sub(r"iv\d+", "iv", key)
            if key in seen:
                continue
            seen.add(key)
            if "Add" in t["kind"]:
                mx, my = _magnitude(b, x), _magnitude(b, y)
                if mx is not None and my is not None and mx + my < 1.0:
                    res.append((b, key, "pass", "cannot overflow: a quotient by the word width is at most usize::MAX / 8, a word index at "
                                "most usize::MAX / 16 (allocation limit), the rest are small constants"))
                    continue
                if (y == ("int", 1) and is_bin(x, "Rem") and _is_bu(x[3])) or (x == ("int", 1) and is_bin(y, "Rem") and _is_bu(y[3])):
                    res.append((b, key, "pass", "(.. % BIT_UNIT) + 1 <= BIT_UNIT"))
                    continue
                for v, o in ((x, y), (y, x)):
                    if v[0] == "var" and len(v) > 2:
                        if _at_most_word(o):
                            res.append((b, key, "trusted", "index + (at most BIT_UNIT): the index is below the length"))
                            break
                        init = b.init_expr(v[2]) if len(b.full_defs(v[2])) == 1 else None
                        firsts = sorted(d[2:] for d in b.defs.get(v[2], []) if d[0] == "full")
                        first_init = None
                        if firsts:
                            blk, idx = firsts[0]
                            st = b.blocks[blk]["st"][idx] if idx < len(b.blocks[blk]["st"]) else None
                            if st is not None and st["s"] == "assign":
                                first_init = b.e_rvalue(st["r"])
                        if amount_dep(o) and not amount_dep(v) and (init == ("int", 0) or first_init == ("int", 0)):
                            res.append((b, key, "trusted", "counter starting at 0 + amount, evaluated as the loop guard `idx + amount < len` "
                                        "(the counter only advances while the sum stays below the length)"))
                            break
                else:
                    res.append((b, key, "violation",
                                "overflow-checked `%s + %s` involves the shift amount, which is saturated to usize::MAX for amounts that "
                                "do not fit: it panics with overflow checks and wraps around without (the shifted vector then keeps "
                                "stale bits instead of being cleared)" % (show(x, False)[:60], show(y, False)[:60])))
            else:
                res.append((b, key, "violation", "overflow-checked multiplication involving the saturated shift amount: %s * %s"
                            % (show(x, False)[:60], show(y, False)[:60])))
    return res
