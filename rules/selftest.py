"""Checker self-test (DESIGN §8): seeded mutants applied to a scratch copy of the *current* tree.

Each mutant is a small semantic rewrite located by an anchor string (never a line number). It must
still type-check, the designated rule of the designated property must fire, and the report must name
the mutated instance. Mutants whose anchor no longer exists are reported as skipped. The mutants
kept under /verif/seeded/<id>/ (written by independent sub-agents) are replayed the same way.
Nothing is ever written to /repo; scratch copies live under mkdtemp and are removed afterwards.
"""
import json
import os
import shutil
import subprocess
import sys
import tempfile
from concurrent.futures import ThreadPoolExecutor

VERIF = os.path.dirname(os.path.dirname(os.path.abspath(__file__)))

# (id, file, old, new, {property: (rule substring, instance substring)})
MUTANTS = [
    ("M01-drop-mod2n-add", "src/fixed.rs",
     "                        .$carry_method(IArray::get_int(rhs, i).unwrap_or(I::ZERO), carry);\n                }\n                self.mod2n(self.length);",
     "                        .$carry_method(IArray::get_int(rhs, i).unwrap_or(I::ZERO), carry);\n                }",
     {"C01": ("MASK", "AddAssign<&Bvd>"), "C03": ("MASK", "AddAssign<&Bvd>")}),
    ("M02-bvd-not-masks-last-word", "src/dynamic.rs",
     "        if let Some(l) = self.data.get_mut(self.length / Self::BIT_UNIT) {\n            *l &= u64::mask(self.length % Self::BIT_UNIT);\n        }\n        self\n",
     "        if let Some(l) = self.data.last_mut() {\n            *l &= u64::mask(self.length.wrapping_sub(1) % Self::BIT_UNIT + 1);\n        }\n        self\n",
     {"C04": ("MASK", "<Bvd as Not>::not"), "C03": ("MASK", "<Bvd as Not>::not")}),
    ("M03-zeros-debug-assert", "src/fixed.rs",
     "    fn zeros(length: usize) -> Self {\n        assert!(length <= Self::capacity());",
     "    fn zeros(length: usize) -> Self {\n        debug_assert!(length <= Self::capacity());",
     {"C19": ("GUARD-CAP", "zeros")}),
    ("M04-drop-second-overflow-flag", "src/dynamic.rs",
     "                    let (d2, c2) = d1.$overflowing_method(rhs.data[i]);\n                    self.data[i] = d2;\n                    carry = (c1 | c2) as u64;",
     "                    let (d2, _c2) = d1.$overflowing_method(rhs.data[i]);\n                    self.data[i] = d2;\n                    carry = c1 as u64;",
     {"C01": ("CARRY", "<Bvd as AddAssign<&Bvd>>")}),
    ("M05-reset-carry-between-loops", "src/fixed.rs",
     "                    for i in N2..N1 {\n                        carry = self.data[i].$carry_method(I1::ZERO, carry);",
     "                    carry = I1::ZERO;\n                    for i in N2..N1 {\n                        carry = self.data[i].$carry_method(I1::ZERO, carry);",
     {"C01": ("CARRY", "AddAssign<&Bvf<I2, N2>>")}),
    ("M06-narrow-default-zero-byref-shl", "src/dynamic.rs",
     "            fn shl(self, rhs: $rhs) -> Bvd {\n                let shift = usize::try_from(rhs).map_or(usize::MAX, |s| s);",
     "            fn shl(self, rhs: $rhs) -> Bvd {\n                let shift = usize::try_from(rhs).map_or(0, |s| s);",
     {"C05": ("NARROW", "<&Bvd as Shl<u128>>")}),
    ("M07-carry-loop-bounded-by-allocation", "src/dynamic.rs",
     "                for i in 0..usize::min(IArray::int_len::<u64>(rhs), Self::capacity_from_bit_len(self.length)) {\n                    let (d1, c1) = self.data[i].$overflowing_method(carry);",
     "                for i in 0..usize::min(IArray::int_len::<u64>(rhs), self.data.len()) {\n                    let (d1, c1) = self.data[i].$overflowing_method(carry);",
     {"C18": ("USED", "AddAssign<&Bvf<I, N>>"), "C01": ("USED", "AddAssign<&Bvf<I, N>>")}),
    ("M08-drop-reverse", "src/fixed.rs",
     "impl<I: Integer, const N: usize> PartialOrd<Bvd> for Bvf<I, N> {\n    fn partial_cmp(&self, other: &Bvd) -> Option<Ordering> {\n        other.partial_cmp(self).map(|o| o.reverse())",
     "impl<I: Integer, const N: usize> PartialOrd<Bvd> for Bvf<I, N> {\n    fn partial_cmp(&self, other: &Bvd) -> Option<Ordering> {\n        other.partial_cmp(self)",
     {"C09": ("REV", "<Bvf<I, N> as PartialOrd<Bvd>>")}),
    ("M09-hash-the-length", "src/dynamic.rs",
     "    fn hash<H: Hasher>(&self, state: &mut H) {\n        for i in 0..Self::capacity_from_bit_len(self.significant_bits()) {",
     "    fn hash<H: Hasher>(&self, state: &mut H) {\n        self.length.hash(state);\n        for i in 0..Self::capacity_from_bit_len(self.significant_bits()) {",
     {"C10": ("HASH", "<Bvd as Hash>")}),
    ("M10-push-without-reserve", "src/dynamic.rs",
     "    fn push(&mut self, bit: Bit) {\n        self.reserve(1);\n        self.length += 1;",
     "    fn push(&mut self, bit: Bit) {\n        self.length += 1;",
     {"C18": ("GUARD-RESERVE", "<Bvd as BitVector>::push"), "C07": ("GUARD-RESERVE", "<Bvd as BitVector>::push")}),
    ("M11-unwrap-absent-word", "src/fixed.rs",
     "                    Ok(IArray::get_int(bv, 0).unwrap_or(0))",
     "                    Ok(IArray::get_int(bv, 0).unwrap())",
     {"C11": ("UNWRAP", "TryFrom<&Bvf<I, N>>")}),
    ("M12-rem-takes-quotient", "src/dynamic.rs",
     "    fn rem(self, rhs: Bvd) -> Bvd {\n        self.div_rem(&rhs).1",
     "    fn rem(self, rhs: Bvd) -> Bvd {\n        self.div_rem(&rhs).0",
     {"C02": ("FWD", "Rem<Bvd>"), "C20": ("FWD", "Rem<Bvd>")}),
    ("M13-u32-cadd-drops-second-carry", "src/utils.rs",
     "impl Integer for u32 {\n    fn mask(length: usize) -> Self {\n        if length < Self::BITS as usize {\n            (Self::ONE << length).wrapping_sub(1)\n        } else {\n            Self::MAX\n        }\n    }\n\n    fn cadd(&mut self, rhs: Self, carry: Self) -> Self {\n        let (v1, c1) = self.overflowing_add(rhs);\n        let (v2, c2) = v1.overflowing_add(carry);\n        *self = v2;\n        c1 as Self + c2 as Self",
     "impl Integer for u32 {\n    fn mask(length: usize) -> Self {\n        if length < Self::BITS as usize {\n            (Self::ONE << length).wrapping_sub(1)\n        } else {\n            Self::MAX\n        }\n    }\n\n    fn cadd(&mut self, rhs: Self, carry: Self) -> Self {\n        let (v1, c1) = self.overflowing_add(rhs);\n        let (v2, _c2) = v1.overflowing_add(carry);\n        *self = v2;\n        c1 as Self",
     {"C01": ("SIB", "cadd u32")}),
    # M14 (by-reference shl kernel reads the old index off by one) was retired: it was only visible to the twin comparison
    # SIB, whose differences are now reported as leads (undecided) because a behaviour-preserving rewrite of one twin
    # produces exactly the same signal; the mutant changes every shifted value and fails the repository's own tests.
    ("M15-read-exact-result-dropped", "src/dynamic.rs",
     "        reader.read_exact(&mut buf[..])?;\n        let mut bv = Self::from_bytes(&buf[..], endianness)",
     "        reader.read_exact(&mut buf[..]).ok();\n        let mut bv = Self::from_bytes(&buf[..], endianness)",
     {"C13": ("ERR", "<Bvd as BitVector>::read")}),
    ("M16-invalid-format-index-from-the-end", "src/fixed.rs",
     "                    '1' => I::ONE,\n                    _ => return Err(ConvertionError::InvalidFormat(i)),",
     "                    '1' => I::ONE,\n                    _ => return Err(ConvertionError::InvalidFormat(length - 1 - i)),",
     {"C15": ("PARSE", "from_binary")}),
    ("M17-bv-append-without-capacity-check", "src/auto.rs",
     "                if bvf.len() + suffix.len() <= Bvp::capacity() {\n                    bvf.append(suffix);\n                } else {\n                    let mut bvd = Bvd::from(&*bvf);\n                    bvd.append(suffix);\n                    *self = Bv::Dynamic(bvd);\n                }",
     "                bvf.append(suffix);",
     {"C18": ("GUARD-BVP", "<Bv as BitVector>::append")}),
    ("M18-split-off-truncates-first", "src/lib.rs",
     "        let high = self.copy_range(index..self.len());\n        self.resize(index, Bit::Zero);\n        high",
     "        let len = self.len();\n        self.resize(index, Bit::Zero);\n        self.copy_range(index..len)",
     {"C08": ("ORDER", "split_off")}),
    ("M19-from-hex-wrong-length", "src/dynamic.rs",
     "        Ok(Self {\n            data: data.into_boxed_slice(),\n            length: length * 4,\n        })",
     "        Ok(Self {\n            data: data.into_boxed_slice(),\n            length: length * 4 - length % 2,\n        })",
     {"C15": ("LEN", "<Bvd as BitVector>::from_hex")}),
    ("M20-nth-unbounded-add", "src/iter.rs",
     "    fn nth(&mut self, n: usize) -> Option<Self::Item> {\n        if n < self.range.end - self.range.start {",
     "    fn nth(&mut self, n: usize) -> Option<Self::Item> {\n        if self.range.start + n < self.range.end {",
     {"C17": ("ITER", "Iterator>::nth")}),
    ("M21-bit-from-int-only-one-is-one", "src/bit.rs",
     "                match u {\n                    0 => Bit::Zero,\n                    _ => Bit::One\n                }",
     "                match u {\n                    1 => Bit::One,\n                    _ => Bit::Zero\n                }",
     {"C11": ("CONST", "Bit as From")}),
    ("M22-conversion-capacity-off-by-one", "src/fixed.rs",
     "    fn try_from(bvd: &Bvd) -> Result<Self, Self::Error> {\n        if bvd.len() > Bvf::<I, N>::capacity() {",
     "    fn try_from(bvd: &Bvd) -> Result<Self, Self::Error> {\n        if bvd.len() >= Bvf::<I, N>::capacity() {",
     {"C12": ("GUARD-PRED", "TryFrom<&Bvd>")}),
    ("M23-sign-extend-ignores-top-bit", "src/lib.rs",
     "            let sign = match self.len() {\n                0 => Bit::Zero,\n                l => self.get(l - 1),\n            };",
     "            let sign = match self.len() {\n                0 => Bit::Zero,\n                _ => Bit::Zero,\n            };",
     {"C07": ("ORDER", "sign_extend")}),
    ("M24-bvd-eq-ignores-longer-operand", "src/dynamic.rs",
     "    fn eq(&self, other: &Self) -> bool {\n        for i in 0..usize::max(self.data.len(), other.data.len()) {",
     "    fn eq(&self, other: &Self) -> bool {\n        for i in 0..usize::min(self.data.len(), other.data.len()) {",
     {"C09": ("KERNEL", "<Bvd as PartialEq<Bvd>>::eq")}),
    ("M25-forwarder-applies-operator-twice", "src/fixed.rs",
     "    fn mul(self, rhs: Bvd) -> Bvf<I, N> {\n        (&self).mul(&rhs)\n    }",
     "    fn mul(self, rhs: Bvd) -> Bvf<I, N> {\n        (&(&self).mul(&rhs)).mul(&rhs)\n    }",
     {"C20": ("FWD", "Mul<Bvd>"), "C01": ("FWD", "Mul<Bvd>")}),
    ("M26-to-vec-buffer-one-byte-too-long", "src/fixed.rs",
     "    fn to_vec(&self, endianness: Endianness) -> Vec<u8> {\n        let num_bytes = (self.length + 7) / 8;",
     "    fn to_vec(&self, endianness: Endianness) -> Vec<u8> {\n        let num_bytes = self.length / 8 + 1;",
     {"C13": ("BUF", "to_vec")}),
    ("M27-or-kernel-drops-mask", "src/dynamic.rs",
     "                    self.data[i].$method(0);\n                }\n                if let Some(l) = self.data.get_mut(self.length / Bvd::BIT_UNIT) {\n                    *l &= u64::mask(self.length % Bvd::BIT_UNIT);\n                }\n            }\n        }\n\n        impl $trait<Bvd> for Bvd {",
     "                    self.data[i].$method(0);\n                }\n            }\n        }\n\n        impl $trait<Bvd> for Bvd {",
     {"C04": ("MASK", "BitOrAssign<&Bvd>"), "C03": ("MASK", "BitXorAssign<&Bvd>")}),
    ("M28-zero-divisor-check-after-work", "src/dynamic.rs",
     "        assert!(!divisor.is_zero(), \"Division by zero\");\n        let mut quotient = Bvd::zeros(self.length);\n        let mut rem = self.clone();\n        if divisor.significant_bits() > self.significant_bits() {\n            return (quotient, rem);\n        }\n",
     "        let mut quotient = Bvd::zeros(self.length);\n        let mut rem = self.clone();\n        if divisor.significant_bits() > self.significant_bits() {\n            return (quotient, rem);\n        }\n        assert!(!divisor.is_zero(), \"Division by zero\");\n",
     {"C02": ("GUARD-ZERO", "<Bvd as BitVector>::div_rem")}),
    ("M29-pop-without-clearing", "src/fixed.rs",
     "            b = Some(self.get(self.length - 1));\n            self.set(self.length - 1, Bit::Zero);\n            self.length -= 1;",
     "            b = Some(self.get(self.length - 1));\n            self.length -= 1;",
     {"C03": ("SHRINK", "pop"), "C07": ("SHRINK", "pop")}),
    ("M31-zero-divisor-debug-assert", "src/fixed.rs",
     "        assert!(!divisor.is_zero(), \"Division by zero\");\n        let mut rem = *self;",
     "        debug_assert!(!divisor.is_zero(), \"Division by zero\");\n        let mut rem = *self;",
     {"C02": ("GUARD-ZERO", "<Bvf<I, N> as BitVector>::div_rem")}),
    ("M32-bvd-new-debug-assert", "src/dynamic.rs",
     "        assert!(length <= data.len() * Self::BIT_UNIT);\n        Self { data, length }",
     "        debug_assert!(length <= data.len() * Self::BIT_UNIT);\n        Self { data, length }",
     {"C18": ("GUARD-RESERVE", "Bvd::new")}),
    ("M33-int-len-rounds-down", "src/fixed.rs",
     "        (self.length + size_of::<J>() * 8 - 1) / (size_of::<J>() * 8)\n    }\n\n    fn get_int<J: Integer>(&self, idx: usize) -> Option<J>\n    where\n        I: StaticCast<J>,",
     "        self.length / (size_of::<J>() * 8) + 1\n    }\n\n    fn get_int<J: Integer>(&self, idx: usize) -> Option<J>\n    where\n        I: StaticCast<J>,",
     {"C12": ("DEFS", "int_len"), "C03": ("DEFS", "int_len")}),
    ("M34-accessor-mask-off-by-one-word", "src/dynamic.rs",
     "                .map(|v| v & J::mask(self.length - idx * J::BITS))",
     "                .map(|v| v & J::mask(self.length - idx * J::BITS + 1))",
     {"C12": ("DEFS", "get_int"), "C09": ("DEFS", "get_int")}),
    ("M35-set-cannot-clear", "src/dynamic.rs",
     "        self.data[index / Self::BIT_UNIT] = (self.data[index / Self::BIT_UNIT]\n            & !(1 << (index % Self::BIT_UNIT)))\n            | ((bit as u64) << (index % Self::BIT_UNIT));",
     "        self.data[index / Self::BIT_UNIT] =\n            self.data[index / Self::BIT_UNIT] | ((bit as u64) << (index % Self::BIT_UNIT));",
     {"C03": ("MASK", "<Bvd as BitVector>::set"), "C07": ("MASK", "<Bvd as BitVector>::set")}),
    ("M36-shift-chunk-unmasked", "src/fixed.rs",
     "                    let old_idx = new_idx - shift;\n                    let d = (self.data[old_idx / Self::BIT_UNIT] >> (old_idx % Self::BIT_UNIT)) & I::mask(l);",
     "                    let old_idx = new_idx - shift;\n                    let d = self.data[old_idx / Self::BIT_UNIT] >> (old_idx % Self::BIT_UNIT);",
     {"C05": ("MASK", "ShlAssign"), "C03": ("MASK", "ShlAssign")}),
    ("M37-shl-in-partial-word-guard-weakened", "src/fixed.rs",
     "        if self.length % Self::BIT_UNIT != 0 {\n            let i = self.length / Self::BIT_UNIT;\n            let b = (self.data[i] >> (self.length % Self::BIT_UNIT - 1)) & I::ONE;",
     "        if self.length > 0 {\n            let i = self.length / Self::BIT_UNIT;\n            let b = (self.data[i] >> (self.length % Self::BIT_UNIT - 1)) & I::ONE;",
     {"C05": ("DECR", "shl_in")}),
    ("M38-bvf-get-int-guard-inclusive", "src/fixed.rs",
     "        if idx * J::BITS < self.length {\n            IArray::get_int::<J>(self.data.as_ref(), idx)\n                .map(|v| v & J::mask(self.length - idx * J::BITS))",
     "        if idx * J::BITS <= self.length {\n            IArray::get_int::<J>(self.data.as_ref(), idx)\n                .map(|v| v & J::mask(self.length - idx * J::BITS))",
     {"C03": ("DEFS", "get_int"), "C09": ("DEFS", "get_int")}),
    ("M39-bvf-get-int-mask-uses-storage-word-width", "src/fixed.rs",
     "                .map(|v| v & J::mask(self.length - idx * J::BITS))\n        } else {\n            None\n        }\n    }\n}\n\nimpl<I: Integer, const N: usize> IArrayMut",
     "                .map(|v| v & J::mask(self.length - idx * I::BITS))\n        } else {\n            None\n        }\n    }\n}\n\nimpl<I: Integer, const N: usize> IArrayMut",
     {"C03": ("DEFS", "get_int")}),
    ("M40-u32-mask-inclusive-bound", "src/utils.rs",
     "impl Integer for u32 {\n    fn mask(length: usize) -> Self {\n        if length < Self::BITS as usize {",
     "impl Integer for u32 {\n    fn mask(length: usize) -> Self {\n        if length <= Self::BITS as usize {",
     {"C01": ("SIB", "SLOT mask u32")}),
    ("M41-u32-leading-zeros-counts-from-the-wrong-end", "src/utils.rs",
     "        u32::leading_zeros(*self) as usize",
     "        u32::trailing_zeros(*self) as usize",
     {"C10": ("SIB", "SLOT leading_zeros u32")}),
    ("M30-bv-hash-branches-on-mode", "src/auto.rs",
     "        for i in 0..(self.significant_bits() + 63) / 64 {\n            self.get_int::<u64>(i).unwrap().hash(state);\n        }",
     "        match self {\n            Bv::Fixed(b) => b.hash(state),\n            Bv::Dynamic(b) => b.hash(state),\n        }",
     {"C10": ("HASH", "<Bv as Hash>")}),
]


def _copy_tree(repo, dst):
    shutil.copytree(os.path.join(repo, "src"), os.path.join(dst, "src"))
    for f in ("Cargo.toml", "Cargo.lock"):
        if os.path.exists(os.path.join(repo, f)):
            shutil.copy(os.path.join(repo, f), os.path.join(dst, f))


def _run_check(pid, tree, cache):
    env = dict(os.environ, BVA_FACTS_CACHE=cache)
    r = subprocess.run([sys.executable, os.path.join(VERIF, "check"), pid, "--repo", tree, "--no-write"],
                       stdout=subprocess.PIPE, stderr=subprocess.STDOUT, text=True, env=env)
    return r.returncode, r.stdout


def run_one(repo, mutant, only_pid=None):
    mid, path, old, new, expect = mutant
    res = dict(id=mid, results={})
    src = os.path.join(repo, path)
    try:
        text = open(src).read()
    except FileNotFoundError:
        res["status"] = "skipped: file missing"
        return res
    if text.count(old) < 1:
        res["status"] = "skipped: anchor not found (the code changed)"
        return res
    tmp = tempfile.mkdtemp(prefix="bva-mutant-")
    try:
        _copy_tree(repo, tmp)
        with open(os.path.join(tmp, path), "w") as fh:
            fh.write(text.replace(old, new, 1))
        res["status"] = "ran"
        for pid, (rule, inst) in expect.items():
            if only_pid and pid != only_pid:
                continue
            rc, out = _run_check(pid, tmp, os.path.join(tmp, ".cache"))
            if "BUILD-FAILED" in out:
                res["status"] = "skipped: mutant does not compile"
                res["results"][pid] = "n/a"
                continue
            fired = False
            lines = out.splitlines()
            for i, l in enumerate(lines):
                if l.startswith("  rule=") and rule in l and inst in l:
                    fired = True
            res["results"][pid] = "caught" if (fired and rc == 1) else ("wrong-instance" if rc == 1 else "MISSED")
    finally:
        shutil.rmtree(tmp, ignore_errors=True)
    return res


def seeded_mutants():
    out = []
    d = os.path.join(VERIF, "seeded")
    if not os.path.isdir(d):
        return out
    for name in sorted(os.listdir(d)):
        meta = os.path.join(d, name, "meta.json")
        patch = os.path.join(d, name, "patch.diff")
        if os.path.exists(meta) and os.path.exists(patch):
            with open(meta) as fh:
                m = json.load(fh)
            out.append((name, patch, m))
    return out


def run_seeded(repo, name, patch, meta, only_pid=None):
    res = dict(id="seeded/" + name, results={})
    tmp = tempfile.mkdtemp(prefix="bva-seeded-")
    try:
        _copy_tree(repo, tmp)
        r = subprocess.run(["patch", "-p1", "-s", "-i", patch], cwd=tmp, stdout=subprocess.PIPE, stderr=subprocess.STDOUT, text=True)
        if r.returncode != 0:
            res["status"] = "skipped: patch does not apply (the code changed)"
            return res
        res["status"] = "ran"
        for pid in meta.get("caught_by", []):
            if only_pid and pid != only_pid:
                continue
            rc, out = _run_check(pid, tmp, os.path.join(tmp, ".cache"))
            if "BUILD-FAILED" in out:
                res["status"] = "skipped: does not compile"
                continue
            res["results"][pid] = "caught" if rc == 1 and "VIOLATION property=%s" % pid in out else "MISSED"
    finally:
        shutil.rmtree(tmp, ignore_errors=True)
    return res


def run(repo="/repo", only_pid=None, workers=8):
    jobs = []
    with ThreadPoolExecutor(max_workers=workers) as ex:
        for m in MUTANTS:
            if only_pid and only_pid not in m[4]:
                continue
            jobs.append(ex.submit(run_one, repo, m, only_pid))
        for name, patch, meta in seeded_mutants():
            if only_pid and only_pid not in meta.get("caught_by", []):
                continue
            jobs.append(ex.submit(run_seeded, repo, name, patch, meta, only_pid))
        return [j.result() for j in jobs]


if __name__ == "__main__":
    pid = sys.argv[1] if len(sys.argv) > 1 else None
    rs = run(only_pid=pid, workers=int(os.environ.get("SELFTEST_WORKERS", "8")))
    bad = 0
    for r in rs:
        print(r["id"], r["status"], r["results"])
        bad += any(v in ("MISSED", "wrong-instance") for v in r["results"].values())
    print("mutants: %d, not caught: %d" % (len(rs), bad))
    sys.exit(1 if bad else 0)


# --------------------------------------------------------------------------------------------
# benign refactors: behaviour-preserving edits on which EVERY check must stay silent
# --------------------------------------------------------------------------------------------
BENIGN = [
    ("B01-rename-locals-hoist-bound", "src/dynamic.rs",
     "                let mut carry = 0;\n                for i in 0..usize::min(Self::capacity_from_bit_len(self.length), Self::capacity_from_bit_len(rhs.length)) {\n                    let (d1, c1) = self.data[i].$overflowing_method(carry);\n                    let (d2, c2) = d1.$overflowing_method(rhs.data[i]);\n                    self.data[i] = d2;\n                    carry = (c1 | c2) as u64;\n                }",
     "                let mut carry = 0;\n                let common = usize::min(Self::capacity_from_bit_len(self.length), Self::capacity_from_bit_len(rhs.length));\n                for i in 0..common {\n                    let (partial, c1) = self.data[i].$overflowing_method(carry);\n                    let (sum, c2) = partial.$overflowing_method(rhs.data[i]);\n                    self.data[i] = sum;\n                    carry = (c1 | c2) as u64;\n                }"),
    ("B02-assert-message", "src/fixed.rs",
     "    fn zeros(length: usize) -> Self {\n        assert!(length <= Self::capacity());",
     "    fn zeros(length: usize) -> Self {\n        assert!(length <= Self::capacity(), \"length exceeds the fixed capacity\");"),
    ("B03-bvf-not-with-iterator", "src/fixed.rs",
     "        for i in 0..N {\n            self.data[i] = !self.data[i];\n        }\n        self.mod2n(self.length);",
     "        for d in self.data.iter_mut() {\n            *d = !*d;\n        }\n        self.mod2n(self.length);"),
    ("B04-bvd-not-with-restricted-iterator", "src/dynamic.rs",
     "        for i in 0..Self::capacity_from_bit_len(self.length) {\n            self.data[i] = !self.data[i];\n        }\n        if let Some(l) = self.data.get_mut(self.length / Self::BIT_UNIT) {",
     "        let used = Self::capacity_from_bit_len(self.length);\n        for d in self.data[..used].iter_mut() {\n            *d = !*d;\n        }\n        if let Some(l) = self.data.get_mut(self.length / Self::BIT_UNIT) {"),
    ("B05-hoist-hash-word-count", "src/auto.rs",
     "        for i in 0..(self.significant_bits() + 63) / 64 {\n            self.get_int::<u64>(i).unwrap().hash(state);\n        }",
     "        let words = (self.significant_bits() + 63) / 64;\n        for i in 0..words {\n            let w = self.get_int::<u64>(i).unwrap();\n            w.hash(state);\n        }"),
    ("B06-push-assert-message", "src/fixed.rs",
     "        assert!(self.length < Self::capacity());\n        self.length += 1;",
     "        assert!(self.length < Self::capacity(), \"push on a full fixed vector\");\n        self.length += 1;"),
    ("B07-guarded-index-mask", "src/dynamic.rs",
     "                    self.data[i] = d;\n                    carry = c as u64;\n                }\n                if let Some(l) = self.data.get_mut(self.length / Bvd::BIT_UNIT) {\n                    *l &= u64::mask(self.length % Bvd::BIT_UNIT);\n                }\n            }\n        }\n\n        impl $trait<Bvd> for Bvd {",
     "                    self.data[i] = d;\n                    carry = c as u64;\n                }\n                if self.length / Bvd::BIT_UNIT < self.data.len() {\n                    self.data[self.length / Bvd::BIT_UNIT] &= u64::mask(self.length % Bvd::BIT_UNIT);\n                }\n            }\n        }\n\n        impl $trait<Bvd> for Bvd {"),
    ("B08-early-return-style-in-first", "src/lib.rs",
     "    fn first(&self) -> Option<Bit> {\n        if self.len() > 0 {\n            Some(self.get(0))\n        } else {\n            None\n        }\n    }",
     "    fn first(&self) -> Option<Bit> {\n        if self.len() > 0 {\n            return Some(self.get(0));\n        }\n        None\n    }"),
    ("B09-comment-and-blank-lines", "src/iter.rs",
     "    fn nth(&mut self, n: usize) -> Option<Self::Item> {\n",
     "    // Skips `n` bits and yields the next one.\n\n    fn nth(&mut self, n: usize) -> Option<Self::Item> {\n\n"),
    ("B10-div-rem-shift-local", "src/dynamic.rs",
     "        let shift = self.significant_bits() - divisor.significant_bits();\n        let mut divisor: Bvd = divisor.try_into().expect(\"should never fail\");",
     "        let dividend_bits = self.significant_bits();\n        let shift = dividend_bits - divisor.significant_bits();\n        let mut divisor: Bvd = divisor.try_into().expect(\"should never fail\");"),
]

BENIGN += [
    ("B11-reallocate-helper", "src/dynamic.rs",
     "        if Self::capacity_from_bit_len(self.length) < self.data.len() {\n            // TODO: in place reallocation\n            let mut new_data: Vec<u64> = repeat(0)\n                .take(Self::capacity_from_bit_len(self.length))\n                .collect();\n            for i in 0..new_data.len() {\n                new_data[i] = self.data[i];\n            }\n            self.data = new_data.into_boxed_slice();\n        }\n    }",
     "        if Self::capacity_from_bit_len(self.length) < self.data.len() {\n            self.reallocate(self.length);\n        }\n    }\n\n    fn reallocate(&mut self, bit_capacity: usize) {\n        let live = Self::capacity_from_bit_len(self.length);\n        let mut new_data: Vec<u64> = repeat(0)\n            .take(Self::capacity_from_bit_len(bit_capacity))\n            .collect();\n        new_data[..live].copy_from_slice(&self.data[..live]);\n        self.data = new_data.into_boxed_slice();\n    }"),
    ("B12-trimmed-clone", "src/dynamic.rs",
     "#[derive(Clone, Debug)]\npub struct Bvd {\n    data: Box<[u64]>,\n    length: usize,\n}",
     "#[derive(Debug)]\npub struct Bvd {\n    data: Box<[u64]>,\n    length: usize,\n}\n\nimpl Clone for Bvd {\n    fn clone(&self) -> Self {\n        Bvd {\n            data: self.data[..Self::capacity_from_bit_len(self.length)].into(),\n            length: self.length,\n        }\n    }\n}"),
]

BENIGN += [
    ("B13-first-last-via-is-empty", "src/lib.rs",
     "    fn first(&self) -> Option<Bit> {\n        if self.len() > 0 {\n            Some(self.get(0))\n        } else {\n            None\n        }\n    }",
     "    fn first(&self) -> Option<Bit> {\n        if self.is_empty() {\n            None\n        } else {\n            Some(self.get(0))\n        }\n    }"),
    ("B14-bvf-hash-trims-zero-words-of-raw-storage", "src/fixed.rs",
     "        for i in 0..Self::capacity_from_bit_len(self.significant_bits()) {\n            self.data[i].hash(state);\n        }",
     "        let words = self\n            .data\n            .iter()\n            .rposition(|d| *d != I::ZERO)\n            .map_or(0, |p| p + 1);\n        for i in 0..words {\n            self.data[i].hash(state);\n        }"),
]

ALL_PIDS = ["C01", "C02", "C03", "C04", "C05", "C07", "C08", "C09", "C10", "C11", "C12", "C13", "C15", "C17", "C18", "C19", "C20"]


def run_benign_one(repo, mutant):
    mid, path, old, new = mutant
    res = dict(id=mid, alarms=[])
    text = open(os.path.join(repo, path)).read()
    if text.count(old) < 1:
        res["status"] = "skipped: anchor not found"
        return res
    tmp = tempfile.mkdtemp(prefix="bva-benign-")
    try:
        _copy_tree(repo, tmp)
        with open(os.path.join(tmp, path), "w") as fh:
            fh.write(text.replace(old, new, 1))
        res["status"] = "ran"
        for pid in ALL_PIDS:
            rc, out = _run_check(pid, tmp, os.path.join(tmp, ".cache"))
            if "BUILD-FAILED" in out:
                res["status"] = "skipped: does not compile"
                break
            if rc != 0:
                lines = [l.strip() for l in out.splitlines() if l.startswith("  rule=")]
                res["alarms"].append((pid, lines[:3]))
    finally:
        shutil.rmtree(tmp, ignore_errors=True)
    return res


def run_benign(repo="/repo", workers=5):
    with ThreadPoolExecutor(max_workers=workers) as ex:
        return list(ex.map(lambda m: run_benign_one(repo, m), BENIGN))


def benign_dir():
    """behaviour-preserving refactors written by independent sub-agents, kept under /verif/benign/<name>/patch.diff"""
    d = os.path.join(VERIF, "benign")
    if not os.path.isdir(d):
        return []
    return [(n, os.path.join(d, n, "patch.diff")) for n in sorted(os.listdir(d)) if os.path.exists(os.path.join(d, n, "patch.diff"))]


def run_benign_patch(repo, name, patch):
    res = dict(id="benign/" + name, alarms=[])
    tmp = tempfile.mkdtemp(prefix="bva-benignp-")
    try:
        _copy_tree(repo, tmp)
        r = subprocess.run(["patch", "-p1", "-s", "-i", patch], cwd=tmp, stdout=subprocess.PIPE, stderr=subprocess.STDOUT, text=True)
        if r.returncode != 0:
            res["status"] = "skipped: patch does not apply (the code changed)"
            return res
        res["status"] = "ran"
        for pid in ALL_PIDS:
            rc, out = _run_check(pid, tmp, os.path.join(tmp, ".cache"))
            if "BUILD-FAILED" in out:
                res["status"] = "skipped: does not compile"
                break
            if rc != 0:
                res["alarms"].append((pid, [l.strip() for l in out.splitlines() if l.startswith("  rule=")][:3]))
    finally:
        shutil.rmtree(tmp, ignore_errors=True)
    return res


def run_benign_dir(repo="/repo", workers=6):
    items = benign_dir()
    with ThreadPoolExecutor(max_workers=workers) as ex:
        return list(ex.map(lambda it: run_benign_patch(repo, it[0], it[1]), items))
