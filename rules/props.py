"""Per-property drivers: select rule instances, apply the rule families, record verdicts."""
from . import mir, storage, mask, fwd, dispatch

CONFIGS = ("dbg", "rel")


def _where(b):
    return b.where()


# --------------------------------------------------------------------------------------------
# family adapters (merge the verdicts of both build configurations per instance key)
# --------------------------------------------------------------------------------------------

class Merge:
    """collect (rule, key) -> verdicts over configurations, then emit once"""

    def __init__(self, rep):
        self.rep = rep
        self.items = {}
        self.order = []

    def add(self, rule, key, ok, msg, where="", cfg="dbg", trusted=False, undecided=False, **kw):
        k = (rule, key)
        if k not in self.items:
            self.items[k] = dict(rule=rule, key=key, ok=True, msgs=[], where=where, trusted=trusted,
                                 undecided=False, kw=kw)
            self.order.append(k)
        it = self.items[k]
        if not ok:
            it["ok"] = False
            it["msgs"].append("[%s] %s" % (cfg, msg))
        elif not it["msgs"] or it["ok"]:
            if ("[%s] %s" % (cfg, msg)) not in it["msgs"] and it["ok"]:
                it["msgs"] = ["%s" % msg]
        it["undecided"] = it["undecided"] or undecided

    def emit(self):
        for k in self.order:
            it = self.items[k]
            msg = "; ".join(dict.fromkeys(it["msgs"]))
            if it["undecided"] and it["ok"]:
                self.rep.undecided(it["rule"], it["key"], msg, it["where"])
            elif it["ok"]:
                if it["trusted"]:
                    self.rep.trust(it["rule"], it["key"], msg)
                else:
                    self.rep.ok(it["rule"], it["key"], msg, it["where"], **it["kw"])
            else:
                self.rep.violation(it["rule"], it["key"], msg, it["where"], **it["kw"])


def writers(ctx, cfg):
    return ctx.memo(("mask", cfg), lambda: mask.classify(ctx.crate(cfg)))


def fwd_result(ctx, cfg):
    return ctx.memo(("fwd", cfg), lambda: fwd.analyse(ctx.crate(cfg)))


def run_mask(ctx, rep, select=None, rule="MASK"):
    m = Merge(rep)
    counts = {}
    for cfg in CONFIGS:
        for w in writers(ctx, cfg):
            if select and not select(w):
                continue
            counts[w.klass] = counts.get(w.klass, 0) + (1 if cfg == "dbg" else 0)
            key = w.body.key
            if w.klass == "CTOR":
                key += "|unmasked-caller-data"
            m.add(rule + "-" + w.klass if w.ok else rule, key, w.ok, w.msg, _where(w.body), cfg,
                  trusted=(w.klass == "K5" and w.ok))
    m.emit()
    return counts


def run_shrink(ctx, rep, select=None):
    m = Merge(rep)
    n = 0
    for cfg in CONFIGS:
        for b, l, ok, why in mask.shrink_rule(ctx.crate(cfg)):
            if select and not select(b):
                continue
            n += cfg == "dbg"
            m.add("SHRINK", "%s|len:=%s" % (b.key, mir.show(l.value)), ok, why, _where(b), cfg)
    m.emit()
    return n


def run_used(ctx, rep):
    m = Merge(rep)
    n = 0
    for cfg in CONFIGS:
        for b, ok, why in mask.used_words(ctx.crate(cfg)):
            n += cfg == "dbg"
            m.add("USED", b.key, ok, why, _where(b), cfg)
    m.emit()
    return n


def run_dispatch(ctx, rep):
    m = Merge(rep)
    n = 0
    for cfg in CONFIGS:
        for b, verdict, msg in dispatch.analyse(ctx.crate(cfg)):
            n += cfg == "dbg"
            m.add("DISPATCH", b.key, verdict != "violation", "%s: %s" % (verdict, msg), _where(b), cfg,
                  trusted=False, nontrivial=(verdict == "symmetric"))
    m.emit()
    return n


def run_fwd(ctx, rep, ops=None, rule="FWD"):
    """pure-forwarder + reachability checks for the operator families in `ops` (None = all)"""
    m = Merge(rep)
    counts = dict(universe=0, kernels=0, forwarders=0)
    for cfg in CONFIGS:
        r = fwd_result(ctx, cfg)
        probs = {}
        for b, p in r.problems:
            probs.setdefault(b.path, []).append(p)
        for b, p in r.reach_problems:
            probs.setdefault(b.path, []).append("does not reach a kernel of its operator: %s" % p)
        for b in r.universe:
            base = fwd.op_base(b.trait)
            if ops and base not in ops:
                continue
            kind = r.kind[b.path]
            if cfg == "dbg":
                counts["universe"] += 1
                counts["kernels" if kind == "kernel" else "forwarders"] += 1
            if kind == "kernel":
                m.add(rule + "-KERNEL", b.key, True, "kernel of %s (loop / raw storage access)" % base, _where(b), cfg,
                      nontrivial=False)
            else:
                ps = probs.get(b.path, [])
                oc = r.edges.get(b.path, [])
                m.add(rule, b.key, not ps,
                      "; ".join(ps) if ps else "pure forwarder to %s" % ", ".join(sorted({o["callee"] for o in oc})),
                      _where(b), cfg)
    m.emit()
    return counts


# --------------------------------------------------------------------------------------------
# C03
# --------------------------------------------------------------------------------------------

def check_c03(ctx, rep, tier):
    crate = ctx.crate("dbg")
    if storage.assert_field_names(crate):
        rep.ok("ANCHOR", "fields data/length belong to exactly Bvf and Bvd", nontrivial=False)
    else:
        rep.violation("ANCHOR-MISSING", "storage-fields", "fields `data`/`length` are no longer unique to Bvf and Bvd")
    counts = run_mask(ctx, rep)
    rep.count("writer_classes", counts)
    rep.floor("raw storage writers", sum(counts.values()), 118)
    rep.floor("K0 canonicalisers", counts.get("K0", 0), 1)
    rep.floor("K1 masked-end writers", counts.get("K1", 0), 26)
    rep.floor("K2 length-masked set_int", counts.get("K2", 0), 2)
    rep.floor("shrinking/growing length stores", run_shrink(ctx, rep), 10)
    rep.floor("Bvd users of data.len()", run_used(ctx, rep), 7)
    rep.floor("Bv non-operator methods (dispatch)", run_dispatch(ctx, rep), 70)
    rep.not_decided += [
        "internals of K5 table entries (values written inside 0..len by shifts, rotations, parsers, append/prepend)",
        "histories are covered by induction (every writer re-establishes the padding invariant), not enumerated",
    ]
    rep.notes.append("reliance set (raw readers that assume zero padding): Bvf::is_zero, to_vec x2, Hash x2, "
                     "LowerHex/UpperHex x4, Bvd::eq/cmp, TryFrom<&Bvd> for uN, same-word-size fast paths of the op-assign kernels")


NOT_APPLICABLE = {
    "C06": "rotation is a bit permutation as a function of runtime n, k and the bits; realised by chunk arithmetic with four "
           "min()s - no shape-level fact separates a correct chunk computation from an off-by-one (incidental clauses: length "
           "unchanged, no `% 0` on empty, are reported under C03/C07)",
    "C14": "output equality with Rust's integer formatting quantifies over all values and format specs; digit extraction is "
           "value-level arithmetic (pad_integral constants and Bv dispatch are reported as supporting facts under C03/C20)",
    "C16": "exact run lengths are arithmetic over word contents; only guarded len-1 and the single definition of "
           "significant_bits are structural (reported under C07/C03)",
}
# properties whose check is still being built are listed here until they are registered in PROPS
PENDING = {'C01': 'check under construction in this round (static rule family designed in DESIGN.md section 5, not yet registered)', 'C02': 'check under construction in this round (static rule family designed in DESIGN.md section 5, not yet registered)', 'C04': 'check under construction in this round (static rule family designed in DESIGN.md section 5, not yet registered)', 'C05': 'check under construction in this round (static rule family designed in DESIGN.md section 5, not yet registered)', 'C07': 'check under construction in this round (static rule family designed in DESIGN.md section 5, not yet registered)', 'C08': 'check under construction in this round (static rule family designed in DESIGN.md section 5, not yet registered)', 'C09': 'check under construction in this round (static rule family designed in DESIGN.md section 5, not yet registered)', 'C10': 'check under construction in this round (static rule family designed in DESIGN.md section 5, not yet registered)', 'C11': 'check under construction in this round (static rule family designed in DESIGN.md section 5, not yet registered)', 'C12': 'check under construction in this round (static rule family designed in DESIGN.md section 5, not yet registered)', 'C13': 'check under construction in this round (static rule family designed in DESIGN.md section 5, not yet registered)', 'C15': 'check under construction in this round (static rule family designed in DESIGN.md section 5, not yet registered)', 'C17': 'check under construction in this round (static rule family designed in DESIGN.md section 5, not yet registered)', 'C18': 'check under construction in this round (static rule family designed in DESIGN.md section 5, not yet registered)', 'C19': 'check under construction in this round (static rule family designed in DESIGN.md section 5, not yet registered)', 'C20': 'check under construction in this round (static rule family designed in DESIGN.md section 5, not yet registered)'}

PROPS = {
    "C03": dict(fn=check_c03,
                level="static rule instances over the compiler's MIR: every raw storage writer is classified and its class "
                      "rule checked on all paths in both build profiles. This decides the invariant-preservation clause "
                      "(bits >= len zero after every operation) that 'no hidden state after any history' rests on, by "
                      "induction over operations rather than by sampling histories",
                technique="static analysis: MIR dataflow/dominance (writer classification, must-pass-through mask, shrink rule, used-words rule, dispatch symmetry)",
                explanation="Every function that can write storage words (discovered from MIR: assignments and &mut-passing "
                            "calls through a `data` field or a local that flows into one) is classified into exactly one writer "
                            "class (K0 canonicaliser, K1 masked-end, K2 length-masked value, K3 zero-only, K4 and-only, K6 "
                            "masked-source copy, COPY, K5 table) and its class rule is checked on the pruned CFG of both "
                            "build configurations; plus the shrink rule for every length store, the used-words rule for Bvd "
                            "and mode symmetry of every Bv method. Decides: the padding invariant (bits >= len are zero in "
                            "all words) is re-established by every writer - the guarantee half of the assume/guarantee "
                            "argument behind 'no hidden state'. Does not decide values written inside 0..len.",
                rule="instance = (writer function, class rule) / (length store, shrink rule) / (Bvd fn, used-words rule) / "
                     "(Bv method, symmetry); non-trivial = instance whose rule had a non-vacuous premise (not a floor/anchor)"),
}
