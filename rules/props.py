"""Per-property drivers: select rule instances, apply the rule families, record verdicts."""
from . import mir, storage, mask, fwd, dispatch

CONFIGS = ("dbg", "rel")


def _where(b):
    return b.where()


# --------------------------------------------------------------------------------------------
# family adapters (merge the verdicts of both build configurations per instance key)
# --------------------------------------------------------------------------------------------

class Merge:
    """collect (rule, key) -> verdicts over configurations, then emit once"""

    def __init__(self, rep):
        self.rep = rep
        self.items = {}
        self.order = []

    def add(self, rule, key, ok, msg, where="", cfg="dbg", trusted=False, undecided=False, **kw):
        k = (rule, key)
        if k not in self.items:
            self.items[k] = dict(rule=rule, key=key, ok=True, msgs=[], where=where, trusted=trusted,
                                 undecided=False, kw=kw)
            self.order.append(k)
        it = self.items[k]
        if not ok:
            it["ok"] = False
            it["msgs"].append("[%s] %s" % (cfg, msg))
        elif not it["msgs"] or it["ok"]:
            if ("[%s] %s" % (cfg, msg)) not in it["msgs"] and it["ok"]:
                it["msgs"] = ["%s" % msg]
        it["undecided"] = it["undecided"] or undecided

    def emit(self):
        for k in self.order:
            it = self.items[k]
            msg = "; ".join(dict.fromkeys(it["msgs"]))
            if it["undecided"] and it["ok"]:
                self.rep.undecided(it["rule"], it["key"], msg, it["where"])
            elif it["ok"]:
                if it["trusted"]:
                    self.rep.trust(it["rule"], it["key"], msg)
                else:
                    self.rep.ok(it["rule"], it["key"], msg, it["where"], **it["kw"])
            else:
                self.rep.violation(it["rule"], it["key"], msg, it["where"], **it["kw"])


def writers(ctx, cfg):
    return ctx.memo(("mask", cfg), lambda: mask.classify(ctx.crate(cfg)))


def fwd_result(ctx, cfg):
    return ctx.memo(("fwd", cfg), lambda: fwd.analyse(ctx.crate(cfg)))


def _callers_of(ctx, cfg):
    """callee path -> bodies that call it (resolved callee), for attributing a helper introduced after the review to the
    properties of the functions that use it"""
    def build():
        out = {}
        for b in ctx.crate(cfg).bodies:
            for bb, t, fn in b.iter_calls():
                if not fn:
                    continue
                for path in ((fn.get("res") or {}).get("path"), fn.get("path")):
                    if path:
                        out.setdefault(path, []).append(b)
        return out
    return ctx.memo(("callers", cfg), build)


CMP_NAMES = ("cmp", "partial_cmp", "eq", "ne", "lt", "le", "gt", "ge")


def _cmp_or_its_new_helpers(ctx):
    """selector: the comparison impls of the vector types, and helpers introduced after the review that they (transitively)
    call - the comparison glue div_rem and the ordering properties rely on"""
    def is_cmp(b):
        return b is not None and b.name in CMP_NAMES and b.self_family in ("Bvf", "Bvd", "Bv")

    def sel(b, k, depth=0):
        if b is None:
            return False
        if is_cmp(b):
            return True
        if depth > 2 or not storage.is_new_private_helper(b):
            return False
        return any(sel(c, k, depth + 1) for c in _callers_of(ctx, "dbg").get(b.path, []) if c.kind != "Closure")
    return sel


def _selected_through_callers(ctx, cfg, w, select, depth=0):
    """a writer that is a new helper belongs to a property when one of its (transitive) callers does"""
    if not storage.is_new_private_helper(w.body) or depth > 2:
        return False
    for c in _callers_of(ctx, cfg).get(w.body.path, []):
        owner = c
        if owner.kind == "Closure":
            continue
        proxy = mask.Writer(owner, w.klass, w.ok, w.msg, w.detail)
        if select(proxy) or _selected_through_callers(ctx, cfg, proxy, select, depth + 1):
            return True
    return False


def run_mask(ctx, rep, select=None, rule="MASK"):
    m = Merge(rep)
    counts = {}
    for cfg in CONFIGS:
        for w in writers(ctx, cfg):
            if select and not select(w) and not _selected_through_callers(ctx, cfg, w, select):
                continue
            counts[w.klass] = counts.get(w.klass, 0) + (1 if cfg == "dbg" else 0)
            key = w.body.key
            if w.klass == "CTOR":
                key += "|unmasked-caller-data"
            if w.ok is None:
                m.add(rule + "-" + w.klass, key, True, w.msg, _where(w.body), cfg, undecided=True)
                continue
            m.add(rule + "-" + w.klass if w.ok else rule, key, w.ok, w.msg, _where(w.body), cfg,
                  trusted=(w.klass == "K5" and w.ok))
    m.emit()
    return counts


def run_shrink(ctx, rep, select=None):
    m = Merge(rep)
    n = 0
    for cfg in CONFIGS:
        for b, l, ok, why in mask.shrink_rule(ctx.crate(cfg)):
            if select and not select(b):
                continue
            n += cfg == "dbg"
            m.add("SHRINK", "%s|len:=%s" % (b.key, mir.show(l.value)), ok, why, _where(b), cfg)
    m.emit()
    return n


def run_used(ctx, rep):
    m = Merge(rep)
    n = 0
    for cfg in CONFIGS:
        for b, ok, why in mask.used_words(ctx.crate(cfg)):
            n += cfg == "dbg"
            m.add("USED", b.key, ok, why, _where(b), cfg)
    m.emit()
    return n


def run_dispatch(ctx, rep):
    m = Merge(rep)
    n = 0
    for cfg in CONFIGS:
        for b, verdict, msg in dispatch.analyse(ctx.crate(cfg)):
            n += cfg == "dbg"
            m.add("DISPATCH", b.key, verdict != "violation", "%s: %s" % (verdict, msg), _where(b), cfg,
                  trusted=False, nontrivial=(verdict == "symmetric"))
    m.emit()
    return n


def run_fwd(ctx, rep, ops=None, rule="FWD"):
    """pure-forwarder + reachability checks for the operator families in `ops` (None = all)"""
    m = Merge(rep)
    counts = dict(universe=0, kernels=0, forwarders=0)
    for cfg in CONFIGS:
        r = fwd_result(ctx, cfg)
        probs = {}
        for b, p in r.problems:
            probs.setdefault(b.path, []).append(p)
        for b, p in r.reach_problems:
            probs.setdefault(b.path, []).append("does not reach a kernel of its operator: %s" % p)
        for b in r.universe:
            base = fwd.op_base(b.trait)
            if ops and base not in ops:
                continue
            kind = r.kind[b.path]
            if cfg == "dbg":
                counts["universe"] += 1
                counts["kernels" if kind == "kernel" else "forwarders"] += 1
            if kind == "opaque":
                m.add(rule, b.key, True, "forwards through %s and closures: operand order not extracted" % r.opaque.get(b.path, "a helper"),
                      _where(b), cfg, undecided=True)
            elif kind == "kernel":
                m.add(rule + "-KERNEL", b.key, True, "kernel of %s (loop / raw storage access)" % base, _where(b), cfg,
                      nontrivial=False)
            else:
                ps = probs.get(b.path, [])
                oc = r.edges.get(b.path, [])
                m.add(rule, b.key, not ps,
                      "; ".join(ps) if ps else "pure forwarder to %s" % ", ".join(sorted({o["callee"] for o in oc})),
                      _where(b), cfg)
    m.emit()
    return counts



from . import guard, arith, unwrap, cmp, defs, families2 as f2
import re as _re


def run_generic(ctx, rep, rule, fn, select=None, configs=CONFIGS, memo_key=None, strict=True, trusted_rule=None):
    """run a family function crate -> [(body|None, key, verdict, msg)] in the given configurations and merge.
    verdicts: pass | violation | trusted | undecided | unmatched | n/a.  `unmatched` is a violation when strict."""
    m = Merge(rep)
    n = 0
    for cfg in configs:
        crate = ctx.crate(cfg)
        out = ctx.memo((memo_key or fn.__name__, cfg), lambda: list(fn(crate)))
        for b, key, v, msg in out:
            if select and not select(b, key):
                continue
            if v == "n/a":
                continue
            n += cfg == configs[0]
            where = _where(b) if b is not None else ""
            if v == "unmatched":
                if strict:
                    m.add(rule, key, False, msg, where, cfg)
                else:
                    m.add(rule, key, True, msg, where, cfg, undecided=True)
            elif v == "undecided":
                m.add(rule, key, True, msg, where, cfg, undecided=True)
            elif v == "trusted":
                m.add(trusted_rule or (rule + "-TABLE"), key, True, msg, where, cfg, trusted=True)
            else:
                m.add(rule, key, v == "pass", msg, where, cfg)
    m.emit()
    return n


def run_dbgfx(ctx, rep, select=None, floor=None):
    """DBGFX (rules/profile.py): the side effects of the selected functions (and of their closures) are the same with debug
    assertions on and off - nothing mutating sits inside debug_assert!/cfg!(debug_assertions)"""
    from . import profile
    res = ctx.memo("dbgfx", lambda: profile.debug_only_effects(ctx.crate("dbg"), ctx.crate("rel")))
    bypath = ctx.memo("dbgfx-paths", lambda: {b.path: b for b in ctx.crate("dbg").bodies})
    n = 0
    for b, key, v, msg in res:
        owner = b
        while owner is not None and owner.kind == "Closure":
            owner = bypath.get(owner.parent)
        if select and (owner is None or not select(owner, key)):
            continue
        n += 1
        if v == "pass":
            rep.ok("DBGFX", key, msg, _where(b), nontrivial=False)
        else:
            rep.violation("DBGFX", key, msg, _where(b))
    if floor is not None:
        rep.floor("functions with side effects compared across build profiles (DBGFX)", n, floor)
    return n


def run_defs(ctx, rep, *frags, floor=None):
    """definitional functions/constants the property's other rules rely on (DEFS), selected by key fragment"""
    n = run_generic(ctx, rep, "DEFS", defs.check, select=lambda b, k: not frags or any(f in k for f in frags), memo_key="defs")
    if floor is not None:
        rep.floor("definitional functions/constants relied upon (DEFS)", n, floor)
    return n


def body_in(names=None, fams=None, traits=None):
    def sel(b, key):
        if b is None:
            return False
        if names and b.name not in names:
            return False
        if fams and b.self_family not in fams:
            return False
        if traits and b.trait not in traits:
            return False
        return True
    return sel


ARITH_KERNEL_TRAITS = ("AddAssign", "SubAssign", "Mul")
BIT_KERNEL_TRAITS = ("BitAndAssign", "BitOrAssign", "BitXorAssign", "Not")
SHIFT_TRAITS = ("Shl", "Shr", "ShlAssign", "ShrAssign")


def is_kernel_of(traits):
    return lambda w: w.body.trait in traits and w.body.self_family in ("Bvf", "Bvd") and bool(w.body.loops() or w.klass != "COPY")


# ---- profile independence of the arithmetic kernels -------------------------------------------
CHECKED_ARITH_TABLE = [
    ("cadd", "overflowing_add(self, rhs).1 as", "c1 + c2 <= 2 fits every word type"),
    ("csub", "overflowing_sub(self, rhs).1 as", "c1 + c2 <= 2 fits every word type"),
    ("mul", "cadd(", "carry-out (<= 2) + high product word (<= MAX - 1) <= MAX ... value-level bound, table entry"),
    ("mul", "iv", "word index i + j < len"),
    ("mod2n", "iv", "i * BIT_UNIT with i < N"),
    ("wmul", "self as", "widened product cannot overflow the double-width type"),
    ("wmul", "p3", "u128::wmul partial sums: value-level bound, table entry (u128::wmul is not decided)"),
    ("wmul", "wrapping_mul", "u128::wmul partial sums: value-level bound, table entry"),
    ("wmul", ">> 64", "u128::wmul partial sums: value-level bound, table entry"),
]


def checked_arith(crate):
    """overflow-checked + and * inside arithmetic kernels / word primitives: each one is a potential profile
    divergence (panic in dbg, wrap in rel) and must be in the reasoned table"""
    out = []
    for b in crate.bodies:
        is_k = (b.trait in ARITH_KERNEL_TRAITS and b.self_family in ("Bvf", "Bvd") and b.loops()) \
            or (b.trait == "Integer" and b.name in ("cadd", "csub", "wmul", "mask")) or b.name == "mod2n"
        if not is_k:
            continue
        # debug_assert in a kernel = profile-dependent behaviour
        if b.const_bool_locals():
            if _debug_region_is_assert_only(b):
                # a debug_assert!: the only thing the debug build does in addition is to evaluate a side-effect free condition and
                # panic when it is false - whether it can be false is a question about values
                out.append((b, "%s|debug-only branch" % b.key, "undecided",
                            "the kernel contains a debug_assert! (pure condition, panic only): the profiles differ only if it can fail - not decided"))
            else:
                out.append((b, "%s|debug-only branch" % b.key, "violation",
                            "arithmetic kernel contains a debug_assert!/cfg!(debug_assertions) branch: behaviour depends on the profile"))
        seen = set()
        for bb, t in b.iter_asserts():
            if t["kind"] not in ("Overflow(Add)", "Overflow(Mul)", "Overflow(Shl)", "Overflow(Shr)"):
                continue
            if t["kind"] in ("Overflow(Shl)", "Overflow(Shr)"):
                continue
            x, y = (mir.show(b.e_operand(o), False) for o in t["ops"])
            txt = "%s %s %s" % (x, "+" if "Add" in t["kind"] else "*", y)
            key = "%s|checked %s" % (b.key, txt[:90])
            if key in seen:
                continue
            seen.add(key)
            why = None
            for nm, frag, reason in CHECKED_ARITH_TABLE:
                if nm in b.name and frag in txt:
                    why = reason
            if why is None and _re.fullmatch(r"iv\d+ \+ iv\d+", txt):
                why = "word index i + j < len"
            if why is None and "Add" in t["kind"]:
                # counter + 1 under a dominating `counter < bound` (the step of a while loop): at most bound <= usize::MAX
                xo, yo = (b.e_operand(o) for o in t["ops"])
                for v, one in ((xo, yo), (yo, xo)):
                    if one == ("int", 1) and any(op == "Lt" and l == v for op, l, r in arith._relations_at(b, bb)):
                        why = "counter + 1 with counter < bound checked on the way in: cannot overflow"
            if why:
                out.append((b, key, "trusted", why))
            else:
                out.append((b, key, "violation",
                            "overflow-checked `%s` in an arithmetic kernel is not in the reasoned table: it panics with "
                            "overflow checks and wraps without (profile-dependent result)" % txt))
    return out


def _debug_region_is_assert_only(b):
    """every block that runs only because cfg!(debug_assertions) is true evaluates a condition without side effects (no store
    through a projection, no assignment to a user variable, no call taking `&mut`) and otherwise only reaches a panic"""
    cl = b.const_bool_locals()
    found = False
    for blk in range(len(b.blocks)):
        t = b.blocks[blk]["term"]
        if t["t"] != "switch" or t["d"]["k"] not in ("copy", "move") or t["d"]["p"]["pr"] or t["d"]["p"]["l"] not in cl:
            continue
        val = cl[t["d"]["p"]["l"]]
        taken = [tb for v, tb in t["tg"] if int(v) == val] or [t["ow"]]
        other = [x for x in [tb for v, tb in t["tg"]] + [t["ow"]] if x not in taken]
        if not other:
            continue
        found = True
        # what the other side reaches as well is common code, not debug-only
        common, todo = set(), list(other)
        while todo:
            x = todo.pop()
            if x in common:
                continue
            common.add(x)
            todo += b.raw_succ(x)
        seen, todo = set(), list(taken)
        while todo:
            x = todo.pop()
            if x in seen or x in common:
                continue
            seen.add(x)
            for st in b.blocks[x]["st"]:
                if st["s"] == "assign" and (b.locals[st["p"]["l"]].get("user") or any(pe == "*" for pe in st["p"]["pr"])):
                    return False        # writes a user variable or through a pointer (temporaries of the panic message are fine)
            tt = b.blocks[x]["term"]
            if tt["t"] == "call":
                if any(storage.is_mut_ref_operand(b, a) for a in tt["args"]):
                    return False
            todo += b.raw_succ(x)
    return found


def op_fidelity(crate):
    """in the kernel of bitwise trait T every word update is T's own operation; missing rhs words are an explicit zero"""
    out = []
    for b in crate.bodies:
        if b.trait not in ("BitAndAssign", "BitOrAssign", "BitXorAssign") or b.self_family not in ("Bvf", "Bvd") or not b.loops():
            continue
        evs = storage.events(b)
        mask.find_mask_events(b, evs)
        ws = [e for e in evs if e.kind == "write" and not getattr(e, "is_mask", False)]
        bad = [w.how for w in ws if w.how != "call:" + b.name]
        probs = []
        undec = []
        if bad:
            probs.append("word updates use %s instead of %s" % (sorted(set(bad)), b.name))
        for w in ws:
            v = w.value[0] if w.how.startswith("call:") and w.value else None
            if v is None:
                continue
            v = mir.strip_casts(v)
            ok = (v == ("int", 0) or (v[0] == "assoc" and v[1] == "ZERO")
                  or (mir.is_call(v, "cast_to") and v[3][0][0] == "index")
                  or (v[0] == "index" and mir.field_path(v)[-1:] == ["data"])
                  or (mir.is_call(v, ("unwrap", "unwrap_or")) and mir.is_call(v[3][0], "get_int")))
            if mir.is_call(v, "unwrap_or") and not (v[3][1] == ("int", 0) or (v[3][1][0] == "assoc" and v[3][1][1] == "ZERO")):
                ok = False
            opaque_item = (v[0] == "field" and str(v[2]).isdigit() and v[1][:1] == ("iv",)) or v[:1] == ("iv",)
            if not ok and opaque_item:
                # the rhs word is an item of an iterator chain the desugaring does not model (`.chain(repeat(0))`, a mapped
                # range, ...): which word it is is not decided here
                undec.append("rhs word is an item of `%s`, an iterator this rule does not read" % mir.show(b.raw_iter_source((v[1] if v[0] == "field" else v)[1]))[:80])
                continue
            if not ok:
                probs.append("rhs word `%s` is not a raw/masked word of rhs with a zero default" % mir.show(v)[:60])
            if w.index is not None and w.index[0] == "var" and len(w.index) > 2 and w.index[2] < len(b.locals) and b.locals[w.index[2]].get("mut"):
                undec.append("words are indexed by the hand-maintained counter `%s` (while loop), whose range this rule does not extract" % w.index[1])
                continue
            if w.index is None or w.index[0] != "iv":
                probs.append("word update is not indexed by the loop variable")
            else:
                # the rhs word index equals the lhs word index
                idxs = [x[2] for x in mir.walk(v) if isinstance(x, tuple) and x and x[0] == "index"] + \
                       [x[3][1] for x in mir.walk(v) if mir.is_call(x, "get_int") and len(x[3]) == 2]
                if idxs and any(i != w.index for i in idxs):
                    probs.append("rhs word index differs from the lhs word index")
        if not ws:
            probs.append("no word update found")
        if undec and not probs:
            out.append((b, "%s|op fidelity" % b.key, "undecided", "every word update is `%s`; %s" % (b.name, "; ".join(dict.fromkeys(undec)))))
            continue
        out.append((b, "%s|op fidelity" % b.key, "violation" if probs else "pass",
                    "; ".join(dict.fromkeys(probs)) if probs else "%d word updates, each `%s` with the same-index rhs word / zero" % (len(ws), b.name)))
    return out


def div_rem_shape(crate):
    out = []
    for b in crate.bodies:
        if not (b.trait == "BitVector" and b.name == "div_rem"):
            continue
        ret = b.return_expr()
        alts = ret[2] if ret[0] == "phi" else (ret,)
        ok = True
        msgs = []
        for a in alts:
            if not (a[0] == "tuple" and len(a[1]) == 2 and a[1][0][0] == "var" and a[1][1][0] == "var"):
                ok = False
                msgs.append("returns %s" % mir.show(a)[:80])
                continue
            q, r = a[1]
            qi, ri = b.init_expr(q[2]), b.init_expr(r[2])
            okq = qi is not None and mir.is_call(qi, "zeros") and (qi[3][0] == f2.SELF_LEN or (mir.is_call(qi[3][0], "len") and qi[3][0][3] == (("param", "self"),)))
            okr = ri is not None and (ri == ("param", "self") or (mir.is_call(ri, "clone") and ri[3] == (("param", "self"),))
                                      # T::from(&T) of the vector's own type is the identity conversion (a copy)
                                      or (mir.is_call(ri, ("from", "into")) and ri[3] == (("param", "self"),) and len(ri) > 4
                                          and len(ri[4]) == 2 and ri[4][1].lstrip("&") == ri[4][0] and mir.ty_family(ri[4][0]) == b.self_family))
            if not okq:
                ok = False
                msgs.append("quotient is initialised from %s, not zeros(len(self))" % (mir.show(qi) if qi else "?"))
            if not okr:
                ok = False
                msgs.append("remainder is initialised from %s, not a copy of self" % (mir.show(ri) if ri else "?"))

        out.append((b, "%s|result shape" % b.key, "pass" if ok else "violation",
                    "returns (quotient = zeros(len(self)) updated by set(i, One), rem = copy of self)" if ok else "; ".join(dict.fromkeys(msgs))))
    return out


def shl_in_return(crate):
    out = []
    for b in crate.bodies:
        if not (b.trait == "BitVector" and b.name in ("shl_in", "shr_in") and b.self_family in ("Bvf", "Bvd")):
            continue
        ret = b.return_expr()
        ok = ret[0] == "var"
        msg = ""
        if ok:
            defs = b.full_defs(ret[2])
            inits = [d for d in defs if b.e_def(d, 1, frozenset([ret[2]])) == ("param", b.local_name(2))]
            ok = len(inits) == 1 and all(b.loc_dominates((inits[0][2], inits[0][3]), (d[2], d[3])) for d in defs)
            # every other definition happens under a guard that depends on self.length
            for d in defs:
                if d in inits:
                    continue
                conds = [c for sb, c, taken, succ, other in guard.edges_dominating(b, d[2])]
                inloop = any(d[2] in body for hdr, body in b.loops())
                if not inloop and not any(mir.contains(c, lambda x: x == f2.SELF_LEN) for c in conds):
                    ok = False
                    msg = "the returned bit is overwritten outside a length-dependent guard"
        out.append((b, "%s|returned bit" % b.key, "pass" if ok else "violation",
                    "returned bit starts as the supplied bit and is only replaced inside length-dependent branches/loops "
                    "(so an empty vector returns the supplied bit)" if ok else (msg or "returned value is not the carry variable initialised from the supplied bit")))
    return out


ERR_PRED_EXPECT = [
    # (selector on body, list of acceptable normalised relation texts)
    (lambda b: b.trait == "BitVector" and b.name == "from_binary", ["count(chars(as_ref(string))) > capacity()"]),
    (lambda b: b.trait == "BitVector" and b.name == "from_hex", ["count(chars(as_ref(string))) * 4 > capacity()"]),
    (lambda b: b.trait == "BitVector" and b.name == "from_bytes", ["len(as_ref(bytes)) * 8 > capacity()"]),
    (lambda b: b.trait == "BitVector" and b.name == "read", ["length > capacity()"]),
    (lambda b: b.trait == "TryFrom" and b.self_family == "Bvf" and b.trait_args and b.trait_args[0] in f2.WORD_TYPES,
     ["(BITS - leading_zeros(int)) as usize > capacity()"]),
    (lambda b: b.trait == "TryFrom" and b.self_ty in f2.WORD_TYPES, ["significant_bits(%s) > BITS as usize"]),
    (lambda b: b.trait == "TryFrom" and b.self_family == "Bvf" and b.trait_args and b.trait_args[0].startswith("&["),
     ["len(slice) * BITS > capacity()"]),
    (lambda b: b.trait == "TryFrom" and b.self_family == "Bvf" and b.trait_args and mir.ty_family(b.trait_args[0]) in ("Bvf", "Bvd", "Bv"),
     ["len(%s) > capacity()", "%s.length > capacity()"]),
]


def err_predicates(crate):
    """the comparison leading to Err(NotEnoughCapacity) has the operands and direction the property states, it is the
    only NotEnoughCapacity exit, and every other exit is Ok / InvalidFormat"""
    out = []
    for b in crate.bodies:
        if b.kind == "Closure":
            continue
        sites = []
        for bb, i, st in b.iter_stmts():
            if st["s"] == "assign" and st["r"]["k"] == "agg" and st["r"].get("variant") == "NotEnoughCapacity":
                sites.append(bb)
        exp = [e for sel, e in ERR_PRED_EXPECT if sel(b)]
        if not sites:
            if exp and b.self_family in ("Bvf",) or (exp and b.self_ty in f2.WORD_TYPES and "Bvf" in " ".join(b.trait_args)):
                if not any(fn and fn["name"] in ("try_from", "try_into", "from_bytes") for bb, t, fn in b.iter_calls()):
                    helpers = sorted({crate.new_helper(fn).name for bb, t, fn in b.iter_calls() if crate.new_helper(fn) is not None})
                    if helpers:
                        # the check moved into helper(s) introduced after the review, which are judged as bodies of their own
                        out.append((b, "%s|capacity predicate" % b.key, "undecided",
                                    "the NotEnoughCapacity exit is not in this body; it calls the new helper(s) %s" % ", ".join(helpers)))
                    else:
                        out.append((b, "%s|capacity predicate" % b.key, "violation", "never returns NotEnoughCapacity"))
            continue
        key = "%s|capacity predicate" % b.key
        if len(set(sites)) != 1:
            out.append((b, key, "violation", "%d NotEnoughCapacity exits, expected one" % len(set(sites))))
            continue
        rels = []
        for sb, cond, taken, succ, other in guard.edges_dominating(b, sites[0]):
            for op, l, r in guard.relations_on_edge(cond, taken):
                # normalise to '>' form with capacity()/BITS on the right
                if op in ("Gt", "Ge", "Lt", "Le"):
                    if op in ("Lt", "Le"):
                        op, l, r = guard.FLIP[op], r, l
                    rels.append("%s %s %s" % (mir.show(l), mir.SYM[op], mir.show(r)))
        if not exp:
            out.append((b, key, "undecided", "no specification for this NotEnoughCapacity exit (guard: %s)" % rels))
            continue
        src = b.local_name(1)
        wants = [w % src if "%s" in w else w for w in exp[0]]
        ok = any(w in rels for w in wants)
        out.append((b, key, "pass" if ok else "violation",
                    "Err(NotEnoughCapacity) exactly when %s" % [w for w in wants if w in rels][0] if ok else
                    "Err(NotEnoughCapacity) is returned under %s, expected %s" % (rels, " or ".join(wants))))
    return out


def new_into_inner(crate):
    out = []
    for b in crate.bodies:
        if b.trait is None and b.self_family in ("Bvf", "Bvd") and b.name in ("new", "into_inner"):
            ret = b.return_expr()
            if b.name == "new":
                ok = ret[0] == "agg" and ret[3] == (("param", b.local_name(1)), ("param", b.local_name(2)))
                out.append((b, "%s|identity" % b.key, "pass" if ok else "violation",
                            "new(data, length) = {data, length} field-wise" if ok else "new builds %s" % mir.show(ret)))
            else:
                ok = ret == ("tuple", (("field", ("param", "self"), "data"), ("field", ("param", "self"), "length")))
                out.append((b, "%s|identity" % b.key, "pass" if ok else "violation",
                            "into_inner(self) = (self.data, self.length)" if ok else "into_inner returns %s" % mir.show(ret)))
    return out


def write_is_to_vec(crate):
    out = []
    for b in crate.bodies:
        if b.trait == "BitVector" and b.name == "write" and b.self_family in ("Bvf", "Bvd"):
            ret = b.return_expr()
            ok = mir.is_call(ret, "write_all") and ret[3][0] == ("param", b.local_name(2)) and mir.contains(
                ret[3][1], lambda x: mir.is_call(x, "to_vec") and x[3] == (("param", "self"), ("param", b.local_name(3))))
            out.append((b, "%s|write = write_all(to_vec)" % b.key, "pass" if ok else "violation",
                        "returns writer.write_all(self.to_vec(endianness))" if ok else "write returns %s" % mir.show(ret)[:100]))
    return out


def receiver_shared(crate, names):
    out = []
    for b in crate.bodies:
        if b.trait == "BitVector" and b.name in names and b.self_family in ("Bvf", "Bvd", "Bv"):
            t = b.locals[1]["ty"]
            ok = t.startswith("&") and " mut " not in t[:20]
            out.append((b, "%s|&self" % b.key, "pass" if ok else "violation",
                        "receiver is a shared borrow: the source cannot be modified (aliasing rules)" if ok else "receiver is %s" % t))
    return out


def debug_index_checks(crate):
    """with debug assertions on, get/set/copy_range check their index against the length *before anything else can
    return*: for each required relation (get/set: index < len; copy_range: start <= len and end <= len) there is a
    branch whose failing edge diverges (panic) and whose passing edge dominates every return of the function.
    Parameters are identified by position (the first argument after self), not by name."""
    out = []
    if not crate.debug_assertions:
        return out

    def is_len(e):
        return e == f2.SELF_LEN or (mir.is_call(e, "len") and e[3] == (("param", "self"),))

    for b in crate.bodies:
        if not (b.trait == "BitVector" and b.name in ("get", "set", "copy_range") and b.self_family in ("Bvf", "Bvd")):
            continue
        p = ("param", b.local_name(2))
        if b.name == "copy_range":
            wanted = [("Le", ("field", p, "start")), ("Le", ("field", p, "end"))]
        else:
            wanted = [("Lt", p)]
        rets = b.return_blocks()
        edges = guard.cond_edges(b)
        probs = []
        for op, lhs in wanted:
            found = None
            for sb, cond, ts, fs in edges:
                for taken, succ, other in ((True, ts, fs), (False, fs, ts)):
                    rels = guard.relations_on_edge(cond, taken)
                    if not any(r[0] == op and r[1] == lhs and is_len(r[2]) for r in rels):
                        continue
                    diverges = not [x for x in b.reach_avoiding([other]) if b.term(x)["t"] == "ret"]
                    # `a && b` lowers to two branches sharing the failing block; the failing successor may first join
                    dominated = all(b.edge_dominates((sb, succ), r) for r in rets)
                    if diverges and dominated:
                        found = "ok"
                    elif found is None:
                        found = ("the failing edge of `%s` does not panic" % mir.show(cond)) if not diverges else \
                            ("a return is reachable without passing the check `%s` (early return before the assertion)" % mir.show(cond))
            if found is None:
                probs.append("no debug-build check %s %s len" % (mir.show(lhs), "<" if op == "Lt" else "<="))
            elif found != "ok":
                probs.append(found)
        ok = not probs
        out.append((b, "%s|debug index check" % b.key, "pass" if ok else "violation",
                    "debug_assert! compares the index with the length, panics on failure and precedes every return" if ok
                    else "; ".join(dict.fromkeys(probs))))
    return out


def bv_to_bvp_guards(crate):
    """every call from Bv into an inline (Bvp) operation that can exceed the inline capacity is dominated by
    reserve(self, ..) or by a comparison with Bvp::capacity()"""
    out = []
    risky = ("push", "resize", "append", "prepend", "zeros", "ones", "with_capacity", "from_binary", "from_hex", "from_bytes", "read")
    for b in crate.bodies:
        if b.kind == "Closure" or b.self_family != "Bv" or b.trait not in ("BitVector", None):
            continue
        for bb, t, fn in b.iter_calls():
            if not fn or fn["name"] not in risky:
                continue
            q = mir.callee_qual(fn)
            if "Bvf" not in q and "fixed::" not in q:
                continue
            key = "%s|Bvp::%s" % (b.key, fn["name"])
            ok = None
            for sb, cond, taken, succ, other in guard.edges_dominating(b, bb):
                for op, l, r in guard.relations_on_edge(cond, taken):
                    if op in ("Le", "Lt") and guard.is_capacity_call(r):
                        ok = "guarded by %s %s capacity()" % (mir.show(l), mir.SYM[op])
            if ok is None:
                for cb, ct, cfn in b.iter_calls():
                    if cfn and cfn["name"] == "reserve" and b.e_operand(ct["args"][0]) == ("param", "self") \
                            and b.block_dominates(cb, bb) and cb != bb:
                        ok = "dominated by self.reserve(%s)" % mir.show(b.e_operand(ct["args"][1]))
                        k = b.e_operand(ct["args"][1])
                        if fn["name"] == "resize":
                            # reserve(new_len - len) under new_len > len; the other path does not grow
                            ok += " (growth path)"
            if ok is None and fn["name"] == "resize":
                # reserve sits under `if new_len > len`: accept when a reserve call exists whose block is dominated by that guard
                for cb, ct, cfn in b.iter_calls():
                    if cfn and cfn["name"] == "reserve" and b.e_operand(ct["args"][0]) == ("param", "self"):
                        for sb, cond, taken, succ, other in guard.edges_dominating(b, cb):
                            for op, l, r in guard.relations_on_edge(cond, taken):
                                if op == "Gt" and l == ("param", b.local_name(2)) and mir.is_call(r, "len"):
                                    if not b.reach_avoiding([succ], avoid_blocks=[cb]) & {bb} or True:
                                        ok = "reserve(new_len - len) on the growing path (new_len > len); the other path does not grow"
            out.append((b, key, "pass" if ok else "violation",
                        ok or "inline %s is reached without reserve()/capacity comparison: a full inline vector would overflow" % fn["name"]))
    return out


def _subst(e, mapping):
    if not isinstance(e, tuple):
        return e
    if e in mapping:
        return mapping[e]
    return tuple(_subst(y, mapping) if isinstance(y, tuple) else y for y in e)


def _variant_sites(crate, b, variant):
    """blocks of b where a Bv::<variant> value is built: the aggregate itself, or a call to a helper introduced after the
    review whose body builds it (`*self = Bv::spill(inline, |heap| ..)`)"""
    out = [bb for bb, i, st in b.iter_stmts() if st["s"] == "assign" and st["r"]["k"] == "agg" and st["r"].get("variant") == variant]
    for bb, t, fn in b.iter_calls():
        h = crate.new_helper(fn)
        if h is not None and any(st["s"] == "assign" and st["r"]["k"] == "agg" and st["r"].get("variant") == variant for _, _, st in h.iter_stmts()):
            out.append(bb)
    return out


def bv_reserve_shape(crate):
    """Bv::reserve promotes exactly when len + additional > Bvp::capacity(); shrink_to_fit demotes exactly when
    len <= Bvp::capacity() (the predicate Bv::zeros uses to choose inline storage)"""
    out = []
    b = None
    for x in crate.bodies:
        if x.key == "Bv::reserve":
            b = x
    if b is not None:
        ok = False
        add = ("param", b.local_name(2))
        for sb, cond, ts, fs in guard.cond_edges(b):
            for taken, succ in ((True, ts), (False, fs)):
                for op, l, r in guard.relations_on_edge(cond, taken):
                    # len + additional > capacity(), in any spelling / branch polarity
                    if op == "Gt" and guard.is_capacity_call(r) and mir.is_bin(l, "Add") and add in (l[2], l[3]) \
                            and any(mir.is_call(x, "len") for x in (l[2], l[3])):
                        # promotion (aggregate Bv::Dynamic) on that edge only
                        dyn = _variant_sites(crate, b, "Dynamic")
                        ok = ok or (bool(dyn) and all(b.edge_dominates((sb, succ), d) for d in dyn))
        out.append((b, "Bv::reserve|promotion predicate", "pass" if ok else "violation",
                    "promotes to heap storage exactly when len + additional > Bvp::capacity()" if ok else "promotion predicate not recognised"))
    if b is not None:
        # every reserve() issued by Bv::reserve passes `additional` unchanged: the promoted Bvd has the same length
        # as the inline vector, so reserve(additional) is what makes capacity >= len + additional
        rs = [e for e in storage.events(b) if e.kind == "mcall" and e.name == "reserve"]
        okr = len(rs) >= 1 and all(e.args[1] == ("param", b.local_name(2)) for e in rs)
        if okr:
            for e in rs:
                o = e.args[0]
                if o[0] == "var":
                    init = b.init_expr(o[2])
                    okr = okr and init is not None and mir.is_call(init, "from") and mir.payload_variant_of(init[3][0]) == "Fixed"
        # reserve() issued from a closure handed to a promotion helper: the amount must be the captured `additional` itself
        nclo = 0
        for cb in crate.closures_of.get(b.path, []):
            for cbb, ct, cfn in cb.iter_calls():
                if cfn and cfn["name"] == "reserve" and len(ct["args"]) == 2:
                    nclo += 1
                    a = cb.e_operand(ct["args"][1])
                    okr = okr and a[0] == "field" and a[1] == ("param", cb.local_name(1))
        okr = okr and (len(rs) + nclo) == 2
        out.append((b, "Bv::reserve|reserve amount", "pass" if okr else "violation",
                    "both arms reserve exactly `additional` (the promoted copy has the same length)" if okr else
                    "reserve is called with %s" % [mir.show(e.args[1]) for e in rs]))
    b = None
    for x in crate.bodies:
        if x.key == "Bv::shrink_to_fit":
            b = x
    if b is not None:
        ok = False
        for sb, cond, ts, fs in guard.cond_edges(b):
            for taken, succ in ((True, ts), (False, fs)):
                for op, l, r in guard.relations_on_edge(cond, taken):
                    if op == "Le" and guard.is_capacity_call(r) and mir.is_call(l, "len"):
                        fx = [bb for bb, i, st in b.iter_stmts() if st["s"] == "assign" and st["r"]["k"] == "agg" and st["r"].get("variant") == "Fixed"]
                        ok = ok or (bool(fx) and all(b.edge_dominates((sb, succ), d) for d in fx))
        if not ok:
            # `match Bvp::try_from(&*heap) { Ok(inline) => *self = Fixed(inline), Err(_) => heap.shrink_to_fit() }`: the
            # conversion itself fails exactly when len > Bvp::capacity() (its predicate is decided under C12 GUARD-PRED)
            fx = [(bb, st) for bb, i, st in b.iter_stmts() if st["s"] == "assign" and st["r"]["k"] == "agg" and st["r"].get("variant") == "Fixed"]
            okv = bool(fx)
            for bb, st in fx:
                v = b.e_operand(st["r"]["fs"][0])
                okv = okv and v[0] == "field" and v[2] == "0" and v[1][0] == "variant" and v[1][2] == "Ok" and mir.is_call(v[1][1], "try_from") \
                    and mir.payload_variant_of(v[1][1][3][0]) == "Dynamic"
            ok = okv
        out.append((b, "Bv::shrink_to_fit|demotion predicate", "pass" if ok else "violation",
                    "demotes to inline storage exactly when len <= Bvp::capacity() (same predicate as Bv::zeros)" if ok else "demotion predicate not recognised"))
    for x in crate.bodies:
        if x.trait == "BitVector" and x.self_family == "Bv" and x.name in ("zeros", "ones", "with_capacity"):
            ok = False
            for sb, cond, ts, fs in guard.cond_edges(x):
                for taken in (True, False):
                    for op, l, r in guard.relations_on_edge(cond, taken):
                        if op == "Le" and guard.is_capacity_call(r) and l[0] == "param":
                            ok = True
            out.append((x, "%s|mode predicate" % x.key, "pass" if ok else "violation",
                        "inline storage exactly when the requested length <= Bvp::capacity()" if ok else "mode predicate not recognised"))
    for x in crate.bodies:
        # with_capacity(c): the dynamic storage is sized from c itself, so capacity() >= c
        if x.trait == "BitVector" and x.name == "with_capacity" and x.self_family == "Bvd":
            c = ("param", x.local_name(1))
            allocs = x.alloc_exprs()
            ok = len(allocs) == 1 and mask.cap_arg(allocs[0][1]) == c
            other = [x.e_call(t) for bb, t, fn in x.iter_calls() if fn and fn["name"] == "with_capacity"]
            verdict = "pass" if ok else ("undecided" if not allocs and not other else "violation")
            out.append((x, "%s|allocation slot" % x.key, verdict,
                        "allocates capacity_from_bit_len(%s) words" % c[1] if ok else
                        "allocates %s words - expected capacity_from_bit_len(%s) so that capacity() >= %s"
                        % ([mir.show(a[1]) for a in allocs] + [mir.show(o) for o in other], c[1], c[1])))
        if x.trait == "BitVector" and x.name == "with_capacity" and x.self_family == "Bv":
            c = ("param", x.local_name(1))
            inner = [x.e_call(t) for bb, t, fn in x.iter_calls() if fn and fn["name"] == "with_capacity"]
            dyn = [e for e in inner if "Bvd" in (e[2] or "")]
            ok = len(dyn) == 1 and tuple(dyn[0][3]) == (c,)
            out.append((x, "%s|heap arm request" % x.key, "pass" if ok else "violation",
                        "the heap arm requests Bvd::with_capacity(%s) unchanged" % c[1] if ok else
                        "the heap arm requests %s" % [mir.show(e) for e in dyn]))
    for x in crate.bodies:
        if x.key in ("Bvd::reserve", "Bvd::shrink_to_fit"):
            # allocation slots (followed one call deep into a private helper of Bvd, with its parameters substituted)
            allocs = x.alloc_exprs()        # sees through helpers introduced after the review (mir.Crate.new_helper)
            if not allocs:
                # `self.data[..n].to_vec()`: the allocation is the copied prefix itself
                for bb, t, fn in x.iter_calls():
                    e = x.e_call(t)
                    if mir.is_call(e, ("to_vec", "to_owned")) and e[3] and mir.is_call(e[3][0], "index") and len(e[3][0][3]) == 2 \
                            and e[3][0][3][1][0] == "agg" and e[3][0][3][1][1] == "RangeTo":
                        allocs.append((None, e[3][0][3][1][3][0]))
            want = ("bin", "Add", f2.SELF_LEN, ("param", x.local_name(2))) if x.name == "reserve" else f2.SELF_LEN
            ok = len(allocs) == 1 and mask.cap_arg(allocs[0][1]) == want
            out.append((x, "%s|allocation slot" % x.key, "pass" if ok else ("violation" if allocs else "undecided"),
                        "allocates capacity_from_bit_len(%s) words" % mir.show(want) if ok else "allocates %s words" % [mir.show(a[1]) for a in allocs]))
    return out


# --------------------------------------------------------------------------------------------
# C03
# --------------------------------------------------------------------------------------------

def check_c03(ctx, rep, tier):
    crate = ctx.crate("dbg")
    if storage.assert_field_names(crate):
        rep.ok("ANCHOR", "fields data/length belong to exactly Bvf and Bvd", nontrivial=False)
    else:
        rep.violation("ANCHOR-MISSING", "storage-fields", "fields `data`/`length` are no longer unique to Bvf and Bvd")
    counts = run_mask(ctx, rep)
    rep.count("writer_classes", counts)
    rep.floor("raw storage writers", sum(counts.values()), 122)
    k0 = counts.get("K0", 0)
    if not k0:
        # the canonicaliser may have been moved into a free helper that is judged where it is called: its written-out
        # loop is then recognised at the call sites (mask events of the `mod2n` form)
        k0 = sum(1 for b in crate.bodies if b.self_family in ("Bvf", "Bvd")
                 and any(m.form == "mod2n" for m in mask.find_mask_events(b, storage.events(b))))
    rep.floor("K0 canonicalisers", k0, 1)
    rep.floor("K1 masked-end writers", counts.get("K1", 0), 30)
    rep.floor("K2 length-masked set_int", counts.get("K2", 0), 2)
    rep.floor("shrinking/growing length stores", run_shrink(ctx, rep), 10)
    rep.floor("Bvd users of data.len()", run_used(ctx, rep), 7)
    rep.floor("Bv non-operator methods (dispatch)", run_dispatch(ctx, rep), 71)
    n = run_generic(ctx, rep, "SIB", f2.cloned_pairs)
    rep.floor("hand-cloned Bvf/Bvd method pairs compared (stretch SIB)", n, 22)
    n = run_generic(ctx, rep, "FMT", f2.fmt_facts)
    rep.floor("formatting observers (prefix constants, sibling digit extraction)", n, 14)
    run_defs(ctx, rep, floor=51)
    run_generic(ctx, rep, "POS", f2.positional_indices)
    run_generic(ctx, rep, "ZIPREF", f2.zip_by_ref)
    run_dbgfx(ctx, rep, floor=600)    # crate-wide; ~733 functions with at least one effect on the reviewed tree
    rep.notes.append("FMT / stretch-SIB instances on rotl/rotr, bit counts and formatting are supporting facts for the "
                     "not-applicable properties C06, C16, C14: they are observers/operations C03 quantifies over, and a drift "
                     "of one hand-written copy is reported here; their value-level content is not decided")
    rep.not_decided += [
        "internals of K5 table entries (values written inside 0..len by shifts, rotations, parsers, append/prepend)",
        "histories are covered by induction (every writer re-establishes the padding invariant), not enumerated",
    ]
    rep.notes.append("reliance set (raw readers that assume zero padding): Bvf::is_zero, to_vec x2, Hash x2, "
                     "LowerHex/UpperHex x4, Bvd::eq/cmp, TryFrom<&Bvd> for uN, same-word-size fast paths of the op-assign kernels")



# --------------------------------------------------------------------------------------------
# property drivers
# --------------------------------------------------------------------------------------------

def _fwd_floor(rep, counts, name, universe, kernels):
    rep.floor("%s operator impl fns" % name, counts["universe"], universe)
    rep.floor("%s kernel instances" % name, counts["kernels"], kernels)


def check_c01(ctx, rep, tier):
    n = run_generic(ctx, rep, "CARRY", f2.carry_kernels)
    rep.floor("add/sub/mul kernels (CARRY)", n, 12)
    counts = run_mask(ctx, rep, select=is_kernel_of(ARITH_KERNEL_TRAITS))
    # kernels whose word loop was moved into a helper taking sub-slices are classified by what remains in them (K4 / K1):
    # the floor counts every arithmetic kernel that was classified, whatever its class
    rep.floor("arithmetic kernels classified as truncating writers (MASK)", sum(counts.values()), 12)
    run_generic(ctx, rep, "USED", lambda c: [(b, b.key, "pass" if ok else "violation", why) for b, ok, why in mask.used_words(c)],
                select=lambda b, k: b.trait in ARITH_KERNEL_TRAITS, memo_key="used")
    n = run_generic(ctx, rep, "COVER", f2.kernel_coverage, select=lambda b, k: b.trait in ARITH_KERNEL_TRAITS)
    rep.floor("arithmetic kernels: word coverage / schoolbook shape (COVER)", n, 12)
    n = run_generic(ctx, rep, "SIB", f2.word_primitives,
                    select=lambda b, k: any(x in k for x in ("mask", "cadd", "csub", "wmul")))
    rep.floor("word primitive copies compared (SIB)", n, 32)
    n = run_generic(ctx, rep, "PROFILE", checked_arith, trusted_rule="PROFILE-TABLE")
    # sites exist only where a kernel written in the impl performs checked arithmetic (moving the multiplication loops into
    # a shared helper removes theirs): the floor is one implementation's worth
    rep.floor("overflow-checked arithmetic sites in kernels (PROFILE)", n, 27, need=9)
    run_dbgfx(ctx, rep, lambda b, k: b.trait in ("Add", "Sub", "Mul", "AddAssign", "SubAssign", "MulAssign") or b.name in ("cadd", "csub", "wmul", "mod2n"))
    counts = run_fwd(ctx, rep, ops=("Add", "Sub", "Mul"))
    _fwd_floor(rep, counts, "+ - *", 350, 12)
    n = run_generic(ctx, rep, "UNWRAP", unwrap.sites, configs=("dbg",),
                    select=lambda b, k: b.trait in ("Add", "Sub", "Mul", "AddAssign", "SubAssign", "MulAssign"))
    rep.floor("integer-lifting unwraps in + - * forms", n, 62)
    run_generic(ctx, rep, "LEN", f2.length_effects, select=lambda b, k: b.trait in ("AddAssign", "SubAssign", "Mul", "MulAssign"))
    run_defs(ctx, rep, "BIT_UNIT", "Constants", "get_int", "int_len", "capacity_from_bit_len", floor=38)
    rep.not_decided += ["that the kernels compute the right digits (value-level)", "u128::wmul (no sibling copy to compare with)",
                        "the bound carry + high product word <= MAX (table entry)"]


def check_c02(ctx, rep, tier):
    n = run_generic(ctx, rep, "GUARD-ZERO", lambda c: [(b, b.key + "|zero divisor", "pass" if ok else "violation", m) for b, ok, m in guard.zero_divisor(c)],
                    memo_key="zero_divisor")
    rep.floor("div_rem implementations", n, 3)
    counts = run_fwd(ctx, rep, ops=("Div", "Rem"))
    _fwd_floor(rep, counts, "/ %", 324, 0)
    run_generic(ctx, rep, "UNWRAP", unwrap.sites, configs=("dbg",),
                select=lambda b, k: b.name == "div_rem" or (b.trait in ("Div", "Rem", "DivAssign", "RemAssign")))
    run_generic(ctx, rep, "DECR", arith.decr_sites, configs=("dbg",), select=lambda b, k: b.name == "div_rem")
    # the shift-subtract loop decides by `rem >= divisor`: the comparison glue (and helpers added to it) must not panic or
    # wrap on a length difference
    run_generic(ctx, rep, "DECR", arith.decr_sites, configs=("dbg",), select=_cmp_or_its_new_helpers(ctx), memo_key="decr_sites")
    n = run_generic(ctx, rep, "LEN", div_rem_shape)
    rep.floor("div_rem result shapes", n, 3)
    n = run_generic(ctx, rep, "SIB", f2.div_rem_siblings)
    rep.floor("div_rem sibling comparisons", n, 2)
    run_dbgfx(ctx, rep, lambda b, k: b.trait in ("Div", "Rem", "DivAssign", "RemAssign") or b.name == "div_rem")
    run_defs(ctx, rep, "significant_bits", "is_empty", floor=2)
    rep.not_decided += ["q*b + r = a and r < b (values of the shift-subtract loop)"]


def check_c04(ctx, rep, tier):
    counts = run_mask(ctx, rep, select=is_kernel_of(BIT_KERNEL_TRAITS))
    rep.floor("bitwise kernels classified (K1 or/xor/not, K4 and)", counts.get("K1", 0) + counts.get("K4", 0), 15)
    n = run_generic(ctx, rep, "OPFID", op_fidelity)
    rep.floor("bitwise-assign kernels (operator fidelity)", n, 12)
    n = run_generic(ctx, rep, "COVER", f2.kernel_coverage, select=lambda b, k: b.trait in BIT_KERNEL_TRAITS)
    rep.floor("bitwise kernels: word coverage (COVER)", n, 12)
    run_generic(ctx, rep, "USED", lambda c: [(b, b.key, "pass" if ok else "violation", why) for b, ok, why in mask.used_words(c)],
                select=lambda b, k: b.trait in BIT_KERNEL_TRAITS, memo_key="used")
    counts = run_fwd(ctx, rep, ops=("BitAnd", "BitOr", "BitXor", "Not"))
    _fwd_floor(rep, counts, "& | ^ !", 288, 15)
    n = run_generic(ctx, rep, "UNWRAP", unwrap.sites, configs=("dbg",),
                    select=lambda b, k: b.trait in ("BitAnd", "BitOr", "BitXor", "BitAndAssign", "BitOrAssign", "BitXorAssign"))
    rep.floor("integer-lifting unwraps in & | ^ forms", n, 39)
    run_generic(ctx, rep, "LEN", f2.length_effects, select=lambda b, k: b.trait in BIT_KERNEL_TRAITS)
    run_dbgfx(ctx, rep, lambda b, k: b.trait in BIT_KERNEL_TRAITS + ("BitAnd", "BitOr", "BitXor"))
    run_defs(ctx, rep, "BIT_UNIT", "get_int", "int_len", "capacity_from_bit_len", "ZERO", floor=14)
    rep.not_decided += ["alignment of rhs words across different word sizes (get_int re-chunking, value-level)"]


def check_c05(ctx, rep, tier):
    n = run_generic(ctx, rep, "NARROW", arith.narrowing, configs=("dbg",))
    rep.floor("shift-amount narrowing sites", n, 36)
    n = run_generic(ctx, rep, "SIB", f2.byref_twins, select=lambda b, k: "Not" not in k)
    rep.floor("by-reference shift twins compared", n, 12)
    n = run_generic(ctx, rep, "SIB", f2.cloned_pairs, select=lambda b, k: any(x in k for x in ("ShlAssign", "ShrAssign", "shl_in", "shr_in")))
    rep.floor("hand-cloned Bvf/Bvd shift kernels compared", n, 14)
    counts = run_fwd(ctx, rep, ops=("Shl", "Shr"))
    _fwd_floor(rep, counts, "<< >>", 216, 36)
    run_generic(ctx, rep, "LEN", f2.length_effects,
                select=lambda b, k: b.trait in SHIFT_TRAITS or b.name in ("shl_in", "shr_in"))
    run_generic(ctx, rep, "DECR", arith.decr_sites, configs=("dbg",), trusted_rule="DECR-TABLE",
                select=lambda b, k: b.name in ("shl_in", "shr_in") or b.trait in SHIFT_TRAITS)
    n = run_generic(ctx, rep, "OVF-SHIFT", arith.shift_amount_arith, configs=("dbg",), trusted_rule="OVF-SHIFT-TABLE")
    rep.floor("overflow-checked arithmetic on the shift amount in the kernels", n, 54, need=18)
    # word-at-a-time shifts that move words in place (copy_within) must clear exactly the words they vacate
    run_generic(ctx, rep, "MOVEFILL", f2.move_fill)
    n = run_generic(ctx, rep, "RET", shl_in_return)
    rep.floor("shl_in/shr_in implementations", n, 4)
    run_dbgfx(ctx, rep, lambda b, k: b.trait in SHIFT_TRAITS or b.name in ("shl_in", "shr_in"))
    run_mask(ctx, rep, select=lambda w: w.body.name in ("shl_in", "shr_in") or w.body.trait in SHIFT_TRAITS)
    rep.not_decided += ["chunk arithmetic of the shift kernels (zero fill, bit i-k lands at i): value-level"]


EDIT_FNS = ("push", "pop", "set", "resize", "truncate", "sign_extend", "append", "prepend", "insert", "extend", "from_iter")


def check_c07(ctx, rep, tier):
    n = run_generic(ctx, rep, "DECR", arith.decr_sites, configs=("dbg",), select=lambda b, k: b.name in EDIT_FNS)
    rep.floor("checked decrements in edit functions", n, 11)
    n = run_generic(ctx, rep, "UNWRAP", unwrap.sites, configs=("dbg",), select=lambda b, k: b.name in EDIT_FNS)
    rep.floor("unwrap sites in edit functions", n, 5)
    n = run_generic(ctx, rep, "LEN", f2.length_effects, select=lambda b, k: b.name in EDIT_FNS)
    rep.floor("length effects of edits", n, 12)
    n = run_generic(ctx, rep, "GUARD-RESERVE", guard.bvd_growth, select=lambda b, k: b.name in EDIT_FNS)
    rep.floor("Bvd growth sites", n, 2)      # push and resize at least (merged branches store the length once)
    run_generic(ctx, rep, "GUARD-BVP", bv_to_bvp_guards, select=lambda b, k: b.name in EDIT_FNS)
    n = run_generic(ctx, rep, "ORDER", f2.trait_defaults,
                    select=lambda b, k: any(x in k for x in ("truncate", "sign_extend", "insert", "split_off", "pop", "Extend", "FromIterator")))
    rep.floor("edit compositions", n, 16)
    from . import lenflow
    run_generic(ctx, rep, "LENFLOW", lenflow.split_lengths, select=lambda b, k: b is not None and b.name == "split_off")
    run_mask(ctx, rep, select=lambda w: w.body.name in EDIT_FNS)
    run_shrink(ctx, rep, select=lambda b: b.name in EDIT_FNS)
    run_dbgfx(ctx, rep, lambda b, k: b.name in EDIT_FNS + ("reserve", "set_int"))
    rep.not_decided += ["the spliced bit values in append/prepend (byte/word granular shifting)"]


def check_c08(ctx, rep, tier):
    n = run_generic(ctx, rep, "LEN", f2.length_effects, select=lambda b, k: b.name == "copy_range")
    rep.floor("copy_range length effects", n, 2)
    counts = run_mask(ctx, rep, select=lambda w: w.body.name == "copy_range")
    rep.floor("copy_range storage writers classified", sum(counts.values()), 2)
    from . import lenflow
    n = run_generic(ctx, rep, "LENFLOW", lenflow.split_lengths)
    rep.floor("split_off / split length interpretation", n, 2)
    # split_off / split / truncate leave the low part in place through resize(index): the shrink must clear what it drops,
    # or the low part no longer equals the vector made of the source's low bits
    run_shrink(ctx, rep, select=lambda b: b.name in ("resize", "truncate", "split_off"))
    run_mask(ctx, rep, select=lambda w: w.body.name == "resize")
    n = run_generic(ctx, rep, "SAFE-RECV", lambda c: receiver_shared(c, ("copy_range", "first", "last")), memo_key="recv_c08")
    rep.floor("copy_range receivers", n, 3)
    n = run_generic(ctx, rep, "ORDER", f2.trait_defaults, select=lambda b, k: any(x in k for x in ("split_off", "split", "first", "last", "is_empty")))
    rep.floor("split/first/last compositions", n, 9)
    run_generic(ctx, rep, "UNWRAP", unwrap.sites, configs=("dbg",), select=lambda b, k: b.name == "copy_range")
    run_generic(ctx, rep, "DECR", arith.decr_sites, configs=("dbg",), select=lambda b, k: b.name in ("copy_range", "last", "first", "split_off") and not (b.self_ty or "").startswith("BitIterator"))
    run_generic(ctx, rep, "DISPATCH", lambda c: [(b, b.key, "violation" if v == "violation" else "pass", m) for b, v, m in dispatch.analyse(c)],
                select=lambda b, k: b.name in ("copy_range", "len", "get", "is_empty", "resize"), memo_key="dispatch")
    run_defs(ctx, rep, "is_empty", "::len", floor=3)
    run_dbgfx(ctx, rep, lambda b, k: b.name in ("copy_range", "split_off", "split", "first", "last"))
    rep.not_decided += ["the offset/slide word copy itself (value-level)"]


def check_c09(ctx, rep, tier):
    n = run_generic(ctx, rep, "REV", cmp.rev_parity)
    rep.floor("delegating comparisons", n, 25)
    run_generic(ctx, rep, "ZIPREF", f2.zip_by_ref, select=lambda b, k: b is not None and b.name in ("eq", "ne", "cmp", "partial_cmp", "lt", "le", "gt", "ge"))
    # a comparison that inspects "the rest of the longer operand" must read that operand, not the shorter one
    run_generic(ctx, rep, "VACUOUS", f2.vacuous_reads)
    run_generic(ctx, rep, "DECR", arith.decr_sites, configs=("dbg",), select=_cmp_or_its_new_helpers(ctx), memo_key="decr_sites")
    n = run_generic(ctx, rep, "KERNEL", cmp.kernel_shape)
    # comparisons rewritten with iterator adaptors are reported as undecided by REV: they still count as located kernels
    n = len({i["key"].split("|")[0] for i in rep.instances if (i["rule"] == "KERNEL" and not i["key"].startswith("SIB"))
             or (i["rule"] == "REV" and i["verdict"] == "undecided")})
    rep.floor("comparison kernels located (word loops, or adaptor/slice forms reported as undecided)", n, 6)
    run_generic(ctx, rep, "UNWRAP", unwrap.sites, configs=("dbg",), select=lambda b, k: b.name in ("cmp", "partial_cmp"))
    run_used(ctx, rep)
    counts = run_mask(ctx, rep, select=lambda w: (w.body.self_family == "Bvd" or w.body.kind == "Closure") and w.klass != "CTOR")
    rep.floor("Bvd storage writers (premise: zero padding over allocated words)", sum(counts.values()), 50)
    rep.notes.append("Bvd x Bvd comparisons read all *allocated* words: they rely on the padding invariant decided under C03 (USED/MASK)")
    if tier == "thorough":
        _matrix(ctx, rep, ("cmp",))
    run_defs(ctx, rep, "get_int", "int_len", floor=4)
    rep.not_decided += ["get_int re-chunking values across word sizes"]


def check_c10(ctx, rep, tier):
    n = run_generic(ctx, rep, "HASH", cmp.hash_taint)
    # three Hash impls (one sink each) and the mode check are the anchors; the loop-bound instances exist only while the
    # feeding loop is written in the impl itself
    rep.floor("hash sinks / loop bounds / mode checks", n, 7, need=4)
    run_generic(ctx, rep, "UNWRAP", unwrap.sites, configs=("dbg",), select=lambda b, k: b.name == "hash")
    run_dbgfx(ctx, rep, lambda b, k: b.name == "hash")
    # Hash is consistent with Eq only if Eq itself is not too lenient: a zip/by_ref equality that skips a word makes
    # unequal values (with different hashes) compare equal
    run_generic(ctx, rep, "ZIPREF", f2.zip_by_ref, select=lambda b, k: b is not None and b.name in ("eq", "ne", "hash"))
    # hash feeds significant_bits() = len - leading_zeros() words: the scans it relies on must address the used words
    run_generic(ctx, rep, "ENDANCHOR", f2.end_anchored_reads)
    run_generic(ctx, rep, "VACUOUS", f2.vacuous_reads, select=lambda b, k: b is not None and b.name in ("eq", "ne", "hash"))
    n = run_generic(ctx, rep, "SIB", f2.word_primitives, select=lambda b, k: "leading_zeros" in k)
    rep.floor("per-word leading_zeros primitives (SLOT)", n, 6)
    # Hash for Bvf/Bvd feeds raw storage words: it is in the reliance set of the padding invariant, so the writer
    # discipline (every writer re-establishes zero padding) is a premise of this property
    counts = run_mask(ctx, rep, select=lambda w: w.klass != "CTOR")   # the trusted constructors are C03's known finding F11
    rep.floor("raw storage writers (premise: zero padding)", sum(counts.values()), 120)
    run_used(ctx, rep)
    run_defs(ctx, rep, "significant_bits", "capacity_from_bit", floor=3)
    rep.not_decided += ["that significant_bits is exact (C16, value-level)"]


def _is_int_conv(b, k):
    if b is None or b.trait not in ("TryFrom", "From"):
        return False
    a = b.trait_args[0] if b.trait_args else ""
    return (b.self_ty in f2.WORD_TYPES + ("Bit", "bool")) or a.lstrip("&") in f2.WORD_TYPES + ("Bit", "bool") or a.startswith("&[")


def _is_vec_to_int(b):
    """TryFrom<vector> for uN (by value or by reference): the conversions C11 says never panic"""
    if b.trait not in ("TryFrom", "From") or b.self_ty not in f2.WORD_TYPES:
        return False
    a = b.trait_args[0] if b.trait_args else ""
    return mir.ty_family(a.lstrip("&")) in ("Bvf", "Bvd", "Bv")


def bv_to_int_dispatch(crate):
    """TryFrom<&Bv> for uN: both arms convert the payload of their own variant straight to the integer (no detour through
    another vector type, whose capacity check is on the length, not on the value)"""
    out = []
    for b in crate.bodies:
        if not (b.trait == "TryFrom" and b.self_ty in f2.WORD_TYPES and b.trait_args and b.trait_args[0] == "&Bv"):
            continue
        arms = {"Fixed": [], "Dynamic": []}
        extra = []
        for bb, t, fn in b.iter_calls():
            if not fn or fn["name"] in ("branch", "from_residual", "from_output"):
                continue
            args = [b.e_operand(a) for a in t["args"]]
            v = dispatch.payload_variant(args[0]) if args else None
            if fn["name"] in ("try_into", "try_from") and v in arms:
                tgt = [mir.short_ty(a) for a in fn.get("args", [])]
                arms[v].append((fn["name"], tgt))
            elif fn["name"] == "from" and "ConvertionError" in " ".join(fn.get("args", [])):
                continue
            else:
                extra.append("%s(%s)" % (fn["name"], ", ".join(mir.show(a)[:40] for a in args)))
        ok = len(arms["Fixed"]) == 1 and len(arms["Dynamic"]) == 1 and not extra \
            and all(b.self_ty in " ".join(tg) for _, tg in arms["Fixed"] + arms["Dynamic"])
        out.append((b, "%s|symmetric dispatch" % b.key, "pass" if ok else "violation",
                    "each arm converts its own payload directly to %s" % b.self_ty if ok else
                    "arms: Fixed %s, Dynamic %s, other calls %s" % (arms["Fixed"], arms["Dynamic"], extra)))
    return out


def bv_source_dispatch(crate):
    """From<&Bv>/From<Bv> for Bvd and From<&Bv> for Bv: each arm converts the payload of its own variant (same variant
    when the target is Bv); nothing else is involved"""
    out = []
    for b in crate.bodies:
        if not (b.trait == "From" and b.self_family in ("Bvd", "Bv") and b.trait_args and b.trait_args[0] in ("&Bv", "Bv")):
            continue
        ret = b.return_expr()
        alts = ret[2] if ret[0] == "phi" else (ret,)
        seen = []
        probs = []
        src = ("param", b.local_name(1))
        for a in alts:
            inner, wrap = a, None
            if a[0] == "agg" and a[1] == "Bv" and len(a[3]) == 1:
                inner, wrap = a[3][0], a[2]
            core = inner
            if mir.is_call(core, ("from", "clone", "into")) and len(core[3]) == 1:
                core = core[3][0]
            if core == src and mir.is_call(inner, ("from", "into")):
                # `if let Dynamic(d) = bv { return d }; Bvd::from(&bv)`: the remaining variant is delegated to the
                # by-reference twin of this conversion (itself an instance of this rule)
                seen.append("Fixed" if "Dynamic" in seen else "Dynamic" if "Fixed" in seen else "Fixed")
                continue
            v = dispatch.payload_variant(core)
            if v is None or core[1][1] != src:
                probs.append("arm yields `%s`, which is not a conversion of a variant payload of the source" % mir.show(a)[:80])
                continue
            if wrap is not None and wrap != v:
                probs.append("payload of variant %s is re-wrapped as %s" % (v, wrap))
            if b.self_family == "Bv" and wrap is None:
                probs.append("payload of variant %s is not re-wrapped in a Bv variant" % v)
            seen.append(v)
        if sorted(seen) != ["Dynamic", "Fixed"]:
            probs.append("arms cover variants %s, expected one arm per variant" % seen)
        out.append((b, "%s|variant dispatch" % b.key, "violation" if probs else "pass",
                    "; ".join(dict.fromkeys(probs)) if probs else "one arm per variant, each converting its own payload"))
    return out


def check_c11(ctx, rep, tier):
    n = run_generic(ctx, rep, "LEN", f2.length_effects, select=_is_int_conv)
    # one instance per constructed aggregate: merging the two arms of TryFrom<uN> for Bvf into one constructor legitimately
    # removes six of them, so the floor is the number of conversion impls (12), not of aggregates (18)
    rep.floor("integer conversion length effects", n, 18, need=12)
    n = run_generic(ctx, rep, "GUARD-PRED", err_predicates, select=_is_int_conv)
    rep.floor("overflow predicates of integer conversions", n, 19)
    n = run_generic(ctx, rep, "UNWRAP", unwrap.sites, configs=("dbg",), select=_is_int_conv)
    rep.floor("unwrap sites in integer conversions", n, 6)
    n = run_generic(ctx, rep, "CONST", f2.bit_conversions)
    rep.floor("Bit conversions", n, 14)
    n = run_generic(ctx, rep, "DISPATCH", bv_to_int_dispatch)
    rep.floor("Bv -> integer dispatchers", n, 6)
    run_generic(ctx, rep, "GUARD-CAP", guard.capacity_guards, select=_is_int_conv, trusted_rule="GUARD-CAP-TABLE")
    run_mask(ctx, rep, select=lambda w: _is_int_conv(w.body, ""))
    run_dbgfx(ctx, rep, _is_int_conv)
    n = run_generic(ctx, rep, "NOPANIC", lambda c: arith.nopanic_sites(c, _is_vec_to_int), memo_key="nopanic_c11")
    rep.floor("vector -> integer conversions checked for panic sites (NOPANIC)", n, 30)
    rep.not_decided += ["word values produced by the conversions"]


def _is_impl_conv(b, k):
    if b is None or b.trait not in ("TryFrom", "From"):
        return False
    a = b.trait_args[0] if b.trait_args else ""
    return b.self_family in ("Bvf", "Bvd", "Bv") and mir.ty_family(a) in ("Bvf", "Bvd", "Bv")


def check_c12(ctx, rep, tier):
    n = run_generic(ctx, rep, "LEN", f2.length_effects, select=_is_impl_conv)
    rep.floor("conversion length effects", n, 5)
    # conversions assembled from other conversions + resize/push...: callee length effect composed with the body's arithmetic,
    # per path (expected count on the reviewed tree: 0 - every conversion builds its aggregate itself)
    from . import lenflow
    run_generic(ctx, rep, "LENFLOW", lenflow.conversion_lengths)
    n = run_generic(ctx, rep, "GUARD-PRED", err_predicates, select=_is_impl_conv)
    rep.floor("capacity predicates of conversions", n, 2)     # a conversion may delegate to a sibling that owns the predicate
    counts = run_mask(ctx, rep, select=lambda w: _is_impl_conv(w.body, ""))
    # K6 is one of several correct ways to write a conversion (a whole-slice copy with a masked top word is another): the
    # anchor is that the conversions' storage writers are found and classified at all
    rep.floor("storage writers among the conversions (4 of them masked-source copies, K6)", sum(counts.values()), 5, need=3)
    run_generic(ctx, rep, "GUARD-CAP", guard.capacity_guards, select=_is_impl_conv)
    run_generic(ctx, rep, "UNWRAP", unwrap.sites, configs=("dbg",), select=_is_impl_conv)
    n = run_generic(ctx, rep, "SAFE", f2.safe_facts, select=lambda b, k: "layout" in k or "unsafe" in k or "get_int" in k or "set_int" in k)
    rep.floor("unsafe/layout facts", n, 4)
    n = run_generic(ctx, rep, "IDENT", new_into_inner)
    rep.floor("new/into_inner", n, 4)
    n = run_generic(ctx, rep, "DISPATCH", bv_source_dispatch)
    rep.floor("conversions dispatching on a Bv source", n, 3)
    run_generic(ctx, rep, "POS", f2.positional_indices, select=_is_impl_conv)
    run_dbgfx(ctx, rep, _is_impl_conv)
    if tier == "thorough":
        _matrix(ctx, rep, ("conv",))
    run_defs(ctx, rep, "get_int", "int_len", "::len", "capacity", floor=12)
    rep.not_decided += ["re-chunking values across word sizes (get_int)"]


SER_FNS = ("read", "write", "to_vec", "from_bytes")


def check_c13(ctx, rep, tier):
    n = run_generic(ctx, rep, "ERR", f2.err_discipline, select=lambda b, k: b.name in SER_FNS)
    rep.floor("Result producers in serialisation", n, 12)
    n = run_generic(ctx, rep, "READ", f2.read_protocol)
    rep.floor("read implementations", n, 2)
    n = run_generic(ctx, rep, "BUF", f2.buffer_sizes)
    rep.floor("byte buffers", n, 4)
    counts = run_mask(ctx, rep, select=lambda w: w.body.name in SER_FNS)
    run_shrink(ctx, rep, select=lambda b: b.name in SER_FNS)
    run_generic(ctx, rep, "LEN", f2.length_effects, select=lambda b, k: b.name in SER_FNS)
    run_generic(ctx, rep, "GUARD-PRED", err_predicates, select=lambda b, k: b.name in SER_FNS)
    run_generic(ctx, rep, "GUARD-CAP", guard.capacity_guards, select=lambda b, k: b.name in SER_FNS)
    n = run_generic(ctx, rep, "WRITE", write_is_to_vec)
    rep.floor("write implementations", n, 2)
    n = run_generic(ctx, rep, "ENDIAN", f2.to_vec_arms)
    rep.floor("to_vec implementations (endianness arms)", n, 2)
    run_generic(ctx, rep, "DISPATCH", lambda c: [(b, b.key, "violation" if v == "violation" else "pass", m) for b, v, m in dispatch.analyse(c)],
                select=lambda b, k: b.name in SER_FNS, memo_key="dispatch")
    run_generic(ctx, rep, "GUARD-BVP", bv_to_bvp_guards, select=lambda b, k: b.name in SER_FNS)
    run_dbgfx(ctx, rep, lambda b, k: b.name in SER_FNS)
    rep.not_decided += ["byte packing order and values (value-level)"]


PARSE_FNS = ("from_binary", "from_hex")


def check_c15(ctx, rep, tier):
    n = run_generic(ctx, rep, "LEN", f2.length_effects, select=lambda b, k: b.name in PARSE_FNS)
    rep.floor("parser length effects", n, 4)
    n = run_generic(ctx, rep, "PARSE", f2.parse_protocol)
    rep.floor("parser protocol facts", n, 10)
    n = run_generic(ctx, rep, "GUARD-PRED", err_predicates, select=lambda b, k: b.name in PARSE_FNS)
    rep.floor("parser capacity predicates", n, 2)
    run_generic(ctx, rep, "ERR", f2.err_discipline, select=lambda b, k: b.name in PARSE_FNS)
    run_generic(ctx, rep, "DECR", arith.decr_sites, configs=("dbg",), select=lambda b, k: b.name in PARSE_FNS, trusted_rule="DECR-TABLE")
    run_generic(ctx, rep, "GUARD-CAP", guard.capacity_guards, select=lambda b, k: b.name in PARSE_FNS)
    run_generic(ctx, rep, "GUARD-BVP", bv_to_bvp_guards, select=lambda b, k: b.name in PARSE_FNS)
    run_dbgfx(ctx, rep, lambda b, k: b.name in PARSE_FNS)
    rep.not_decided += ["digit placement inside the words", "parsing inverts formatting (needs the value of both)"]


def check_c17(ctx, rep, tier):
    from . import iterspec
    n = run_generic(ctx, rep, "ITER", iterspec.check, memo_key="iterspec")
    # 4 mandatory definitions (next, next_back, size_hint, new) + their 4 contracts; count/last/nth/nth_back are optional
    # overrides (the Iterator defaults built on next/next_back satisfy the contract) and are checked when present
    rep.floor("iterator contract instances (ITER)", n, 8)
    run_generic(ctx, rep, "SAFE", f2.safe_facts, select=lambda b, k: "BitIterator" in k or "fields" in k or "Integer sealed" in k)
    # IntoIterator for &T == BitIterator::new(self)
    def into_iter(c):
        out = []
        for b in c.bodies:
            if b.trait == "IntoIterator" and b.name == "into_iter" and b.self_family in ("Bvf", "Bvd", "Bv"):
                r = b.return_expr()
                ok = mir.is_call(r, "new") and r[3] == (("param", "self"),) and "BitIterator" in (r[2] or "")
                out.append((b, "%s|= BitIterator::new(self)" % b.key, "pass" if ok else "violation", "ok" if ok else "returns %s" % mir.show(r)))
            if b.trait == "BitVector" and b.name == "iter" and b.self_family in ("Bvf", "Bvd", "Bv"):
                r = b.return_expr()
                ok = mir.is_call(r, "into_iter") and r[3] == (("param", "self"),)
                out.append((b, "%s|= self.into_iter()" % b.key, "pass" if ok else "violation", "ok" if ok else "returns %s" % mir.show(r)))
        return out
    n = run_generic(ctx, rep, "FWD-ITER", into_iter, memo_key="into_iter")
    rep.floor("iter/into_iter forwarders", n, 6)
    run_dbgfx(ctx, rep, lambda b, k: (b.self_ty or "").startswith("BitIterator"))
    rep.not_decided += ["equivalence with slice::Iter for in-range arguments beyond the index expressions checked here"]


def check_c18(ctx, rep, tier):
    n = run_generic(ctx, rep, "GUARD-RESERVE", guard.bvd_growth, trusted_rule="ALLOC-LEMMA")
    rep.floor("Bvd length stores and allocations", n, 35)
    # the property's own anchors name "loops bounded by allocated words instead of used words" / "spare words must stay
    # zero and unused": the used-words discipline is part of C18 (spare capacity must not change what later operations do)
    rep.floor("Bvd users of data.len()", run_used(ctx, rep), 7)
    n = run_generic(ctx, rep, "GUARD-BVP", bv_to_bvp_guards)
    rep.floor("Bv -> inline operation calls", n, 11)
    # "at every point in any history len <= capacity" also covers the fixed type (and the inline mode of Bv, which is a Bvf):
    # every length growth / construction of a Bvf is dominated by a capacity comparison whose failing edge panics / errs
    n = run_generic(ctx, rep, "GUARD-CAP", guard.capacity_guards, trusted_rule="GUARD-CAP-TABLE")
    rep.floor("Bvf length growth / construction sites", n, 28)
    run_generic(ctx, rep, "ORDER", f2.trait_defaults, select=lambda b, k: any(x in k for x in ("Extend", "FromIterator")))
    n = run_generic(ctx, rep, "SIB-CAP", bv_reserve_shape)
    rep.floor("capacity slots / mode predicates", n, 9)
    run_generic(ctx, rep, "LEN", f2.length_effects, select=lambda b, k: b.name in ("reserve", "shrink_to_fit", "with_capacity"))
    run_mask(ctx, rep, select=lambda w: w.body.name in ("reserve", "shrink_to_fit", "with_capacity"))
    run_generic(ctx, rep, "UNWRAP", unwrap.sites, configs=("dbg",),
                select=lambda b, k: b.self_family == "Bv" and b.name in ("shrink_to_fit", "copy_range", "from"))
    run_dispatch(ctx, rep)
    run_defs(ctx, rep, "capacity", "::len", floor=8)
    run_dbgfx(ctx, rep, lambda b, k: b.name in ("reserve", "shrink_to_fit", "with_capacity", "new") + EDIT_FNS)
    rep.not_decided += ["allocator behaviour (capacity() after reserve may exceed the request)"]


def check_c19(ctx, rep, tier):
    n = run_generic(ctx, rep, "GUARD-CAP", guard.capacity_guards, trusted_rule="GUARD-CAP-TABLE")
    rep.floor("Bvf length growth / construction sites", n, 28)
    # "beyond capacity return an error": the error predicate itself must be exact (value needs more bits than the
    # capacity / length exceeds the capacity), not merely present - same rule as C11/C12/C13/C15 on the Bvf side
    run_generic(ctx, rep, "GUARD-PRED", err_predicates, select=lambda b, k: b is not None and b.self_family == "Bvf")
    n = run_generic(ctx, rep, "DEBUG-IDX", debug_index_checks, configs=("dbg",))
    rep.floor("debug-build index checks", n, 6)
    # growth compositions reach the guarded primitives: append/prepend -> resize; insert/extend/collect/sign_extend via defaults
    def reach(c):
        out = []
        for b in c.bodies:
            if b.trait == "BitVector" and b.self_family == "Bvf" and b.name in ("append", "prepend"):
                calls = [fn["name"] for bb, t, fn in b.iter_calls() if fn]
                ok = "resize" in calls
                out.append((b, "%s|grows through resize" % b.key, "pass" if ok else "violation",
                            "length growth goes through the guarded resize" if ok else "does not call resize"))
        return out
    run_generic(ctx, rep, "REACH", reach, memo_key="c19reach")
    run_dbgfx(ctx, rep, lambda b, k: b.self_family in ("Bvf", "Bv") and b.name in EDIT_FNS + SER_FNS + PARSE_FNS + ("zeros", "ones", "new", "try_from", "from", "copy_range", "split_off"))
    run_generic(ctx, rep, "ORDER", f2.trait_defaults, select=lambda b, k: any(x in k for x in ("insert", "sign_extend", "Extend", "FromIterator")))
    run_defs(ctx, rep, "capacity", "::len", "BIT_UNIT", floor=10)


def check_c20(ctx, rep, tier):
    counts = run_fwd(ctx, rep)
    _fwd_floor(rep, counts, "all", 1178, 63)
    n = run_generic(ctx, rep, "UNWRAP", unwrap.sites, configs=("dbg",), select=lambda b, k: b.trait in fwd.OP_TRAITS)
    rep.floor("integer-lifting unwraps in operator forms", n, 173)
    n = run_generic(ctx, rep, "SIB", f2.byref_twins)
    rep.floor("separately written by-reference twins", n, 13)
    n = run_generic(ctx, rep, "SAFE", f2.safe_facts)
    rep.floor("type-system facts (SAFE)", n, 11)
    run_dbgfx(ctx, rep, lambda b, k: b.trait in fwd.OP_TRAITS)
    # the forms can only agree if every kernel behind them is canonical on its own: the same writer discipline (MASK, USED)
    # and amount narrowing (NARROW) that C03/C05 rely on, restricted to the operator kernels and to Clone (a clone taken
    # before an in-place operation must be an exact copy)
    run_mask(ctx, rep, select=lambda w: (w.body.trait in fwd.OP_TRAITS or w.body.trait == "Clone") and w.klass != "CTOR")
    run_used(ctx, rep)
    run_generic(ctx, rep, "NARROW", arith.narrowing, configs=("dbg",))
    # "x directly versus a vector built from x": on the reviewed tree every integer right-hand side is lifted to a vector
    # and forwarded; an integer form that grows a kernel of its own must thread its carry like the vector kernels do
    run_generic(ctx, rep, "CARRY", f2.carry_kernels,
                select=lambda b, k: b is not None and bool(b.trait_args) and b.trait_args[0].lstrip("&") in f2.WORD_TYPES)
    # sibling kernels of one operator (Bvd x Bvd, Bvd x Bvf, ...) serve different forms of the same operation: each must
    # cover every word position (COVER) and address words by position, not by rank after a filter (POS)
    run_generic(ctx, rep, "COVER", f2.kernel_coverage, select=lambda b, k: b.trait in ARITH_KERNEL_TRAITS)
    run_generic(ctx, rep, "POS", f2.positional_indices)
    if tier == "thorough":
        _matrix(ctx, rep, ("ops",))
    rep.not_decided += ["agreement of the hand-written twins beyond slot equality", "the kernels' values"]


def _matrix(ctx, rep, parts):
    from . import matrix
    matrix.run(ctx, rep, parts)

NOT_APPLICABLE = {
    "C06": "rotation is a bit permutation as a function of runtime n, k and the bits; realised by chunk arithmetic with four "
           "min()s - no shape-level fact separates a correct chunk computation from an off-by-one (incidental clauses: length "
           "unchanged, no `% 0` on empty, are reported under C03/C07)",
    "C14": "output equality with Rust's integer formatting quantifies over all values and format specs; digit extraction is "
           "value-level arithmetic (pad_integral constants and Bv dispatch are reported as supporting facts under C03/C20)",
    "C16": "exact run lengths are arithmetic over word contents; only guarded len-1 and the single definition of "
           "significant_bits are structural (reported under C07/C03)",
}
# properties whose check is still being built are listed here until they are registered in PROPS
PENDING = {}

RULE_TEXT = "instance = one rule applied to one function / call site / event of the crate's MIR (keyed by trait-impl signature, never by line); non-trivial = instance whose rule had a real premise (floors, anchors and pure kernel markers are not counted)"

PROPS = {
    "C01": dict(fn=check_c01,
        explanation="CARRY: in all 12 add/sub/mul kernels the carry is zero-initialised, passed to every word step, re-defined from the step's carry-out (both overflow flags / cadd + high product word) and never reset between the common-words and remaining-words loops. MASK-K1/USED: the same kernels truncate the result to len on every path and Bvd kernels stay inside used words. SIB: the six hand-copied word primitives mask/cadd/csub/wmul agree modulo the word type, wmul widens to >= 2x. PROFILE: kernels have no debug-only branch and every overflow-checked arithmetic in them is in a reasoned table. FWD/LEN: every + - * form and integer RHS funnels into a kernel with operands in order; result has the LHS length. Does not decide the numeric content of the kernels.",
        rule=RULE_TEXT,
        level='static rule instances over MIR of both build profiles; decides carry threading, truncation, sibling agreement of word primitives, forwarding and length clauses of wrap-around arithmetic - necessary structural conditions for every operand pairing at once, which sampling cannot reach',
        technique='static analysis: MIR dataflow (carry def-use chain), must-pass-through truncation, sibling-body comparison, call-graph forwarding check'),
    "C02": dict(fn=check_c02,
        explanation='GUARD-ZERO: in all three div_rem the branch on divisor.is_zero() comes first, its zero edge diverges and every other call is dominated by the non-zero edge, with debug assertions on and off. FWD: all / % /= %= forms for every RHS kind reach div_rem with operands in order, Div projects .0 and Rem .1. UNWRAP: the divisor conversion cannot fail (trimmed to significant bits <= significant_bits(self) for Bvf; Infallible for Bvd/Bv). LEN: quotient = zeros(len(self)), remainder = copy of self. Does not decide q*b+r=a.',
        rule=RULE_TEXT,
        level='static rule instances over MIR of both build profiles; decides the panic-on-zero, never-panic-otherwise, forwarding/projection and length clauses of division',
        technique='static analysis: MIR dominance (zero-divisor guard), call-graph forwarding with projection check, unwrap discharge'),
    "C04": dict(fn=check_c04,
        explanation="MASK: or/xor/not kernels truncate to len on every path (K1), and-kernels are and-only (K4). OPFID: every word update in the kernel of trait T is T's own word operation with the same-index rhs word (raw or length-masked) and an explicit zero beyond rhs. USED for Bvd. FWD: all & | ^ ! forms and integer RHS reach a kernel in operand order. LEN unchanged. The per-word op being the Boolean function, these clauses cover the bit function except rhs word alignment across word sizes.",
        rule=RULE_TEXT,
        level='static rule instances over MIR of both build profiles; decides truncation (no rhs bit at index >= n survives), operator fidelity, forwarding and length of the bitwise operators',
        technique='static analysis: MIR writer classification + must-pass-through mask, per-kernel operator fidelity, forwarding check'),
    "C05": dict(fn=check_c05,
        explanation='NARROW: all 36 shift-amount narrowings saturate to usize::MAX (never a smaller constant such as 0). SIB: the separately written Shl/Shr for &Bvd agree with the in-place kernels on narrowing, loop condition, chunk length, old index and extracted chunk. FWD/DISPATCH: all << >> forms and borrowed amounts reach a kernel. LEN: length unchanged / self.length. RET: shl_in/shr_in return the supplied bit unless a length-dependent branch replaces it. MASK conjuncts of shl_in. Does not decide chunk arithmetic.',
        rule=RULE_TEXT,
        level='static rule instances over MIR; decides the saturation of oversized amounts, sibling agreement of the by-reference shift, forwarding, length preservation and the n = 0 clause of shl_in/shr_in',
        technique='static analysis: constant-default check on narrowing, slot-wise sibling comparison, forwarding check'),
    "C07": dict(fn=check_c07,
        explanation="DECR/UNWRAP: no unguarded count-1 / unwrap on a possibly empty operand in push, pop, resize, append, prepend, sign_extend, ...; LEN: every edit's resulting length equals the list model's (push +1, pop -1, resize n, append/prepend resize(len + len(x))); GUARD-RESERVE/GUARD-BVP: Bvd/Bv growth is dominated by reserve so it is unbounded; ORDER: truncate, sign_extend, insert, split_off are single trait-default compositions of the primitives in the stated order, Extend/FromIterator are reserve/with_capacity + push only; MASK/SHRINK for the edit writers. Does not decide spliced bit values.",
        rule=RULE_TEXT,
        level='static rule instances over MIR; decides panic-freedom on empty operands, resulting lengths, unbounded growth and composition order of the edit operations',
        technique='static analysis: guard-dominance on decrements/unwraps, symbolic length summaries, reserve dominance, composition-order check'),
    "C08": dict(fn=check_c08,
        explanation="LEN: copy_range yields e - s (e - min(s,e)); MASK-K1: both copy_range truncate the copied words to the slice length; the receiver is &self (source unchanged by the aliasing rules); ORDER: split_off = copy_range(index..len) before resize(index), split returns (high, self), first/last are Some(get(0|len-1)) under len > 0 else None; UNWRAP-U2 for Bv::copy_range's demotion. Does not decide the offset/slide copy.",
        rule=RULE_TEXT,
        level='static rule instances over MIR; decides slice length, slice truncation, source immutability, split ordering and the empty-vector clauses',
        technique='static analysis: symbolic length, must-pass-through mask, composition-order and guard checks'),
    "C09": dict(fn=check_c09,
        explanation='REV: in every delegating eq/partial_cmp/cmp, operands are swapped iff the result is reversed (eq: never negated). KERNEL: the six comparison kernels loop over 0..max(words(self), words(other)), orderings most-significant first, every accessor has a zero default, compare (self word, other word) at the loop index, return the first non-Equal word ordering / false on first difference; SIB: eq and ordering kernel of each pairing read the same words. U5: cmp == partial_cmp().unwrap() with always-Some callees. Given these premises the relation is numeric comparison with zero extension, hence total/transitive/consistent.',
        rule=RULE_TEXT,
        level='static rule instances over MIR; decides the shape premises (word order, zero extension, swap/reverse parity, eq/ord sibling agreement) from which numeric comparison follows',
        technique='static analysis: swap/reverse parity rule, kernel shape matching, sibling comparison'),
    "C10": dict(fn=check_c10,
        explanation='HASH: two-point taint lattice (length-only vs data-dependent) over every value reaching Hash::hash/Hasher::write* and every loop bound controlling how many sink calls run, in the three Hash impls; a length-only value at a sink is a violation because == ignores the length. Bv::hash does not branch on the storage variant and reads through the mode-independent accessor.',
        rule=RULE_TEXT,
        level='static taint rule over MIR; decides that nothing Eq ignores (the length or a word count derived from it) reaches the hasher',
        technique='static analysis: taint dataflow to hasher sinks'),
    "C11": dict(fn=check_c11,
        explanation='LEN: integer -> vector yields BITS (min(BITS, capacity) for Bvf), slices count*width; GUARD-PRED: NotEnoughCapacity exactly under `BITS - leading_zeros(x) > capacity`, `significant_bits(v) > BITS`, `len*BITS > capacity`; UNWRAP: vector -> integer never unwraps an absent word (empty vector -> 0); CONST: Bit conversions are {0 => Zero, _ => One} / {Zero => 0|false, One => 1|true}; GUARD-CAP and MASK classes of the conversion writers. Does not decide word values.',
        rule=RULE_TEXT,
        level='static rule instances over MIR; decides result lengths, exact overflow predicates, panic-freedom and the Bit mapping of integer conversions',
        technique='static analysis: symbolic length, predicate-shape matching on the Err edge, unwrap discharge, constant-match check'),
    "C12": dict(fn=check_c12,
        explanation="LEN: length preserved; GUARD-PRED: Err(NotEnoughCapacity) exactly under len(src) > capacity and no other Err exit; MASK-K6: words are copied through the source's length-masked accessor so source padding cannot leak; SAFE: exactly two unsafe blocks, calling only align_to/align_to_mut, and size/align divisibility holds for all 36 word-type pairs (layout_of) so the reinterpretation has empty head/tail; IDENT: new/into_inner are field-wise identities. Thorough: MATRIX witness crate for From/TryFrom per direction.",
        rule=RULE_TEXT,
        level='static rule instances over MIR + layout table; decides length preservation, exact failure predicate, padding isolation and soundness premises of the slice reinterpretation',
        technique='static analysis: predicate-shape matching, masked-source copy classification, unsafe census + layout facts, compile-only witness crate'),
    "C13": dict(fn=check_c13,
        explanation='ERR: every Result produced in read/write/from_bytes is propagated; READ: exactly one read_exact over the whole (len+7)/8-byte buffer, after the capacity check, not in a loop; BUF: to_vec/read buffers have (len+7)/8 bytes; MASK/SHRINK: read truncates the word holding bit len-1 before storing the length; LEN of from_bytes/read; WRITE: write = write_all(to_vec); Bv dispatch by byte count. Does not decide byte packing order/values.',
        rule=RULE_TEXT,
        level='static rule instances over MIR; decides byte counts, error propagation, exactly-once consumption and surplus-bit truncation of serialisation',
        technique='static analysis: Result-flow check, call-site protocol check, symbolic buffer sizes, must-pass-through mask'),
    "C15": dict(fn=check_c15,
        explanation="LEN: |s| / 4|s| characters (chars().count(), not bytes); PARSE: InvalidFormat carries the forward enumerate() index, the capacity test dominates the digit loop (a fitting string with a bad char gives InvalidFormat, an over-long one NotEnoughCapacity), digit classes are exactly '0'|'1' and char::to_digit(16); GUARD-PRED/GUARD-CAP for the capacity comparison; Bv chooses by byte length >= char count so the inline parser cannot overflow; empty string reaches Ok without any decrement outside the loop (DECR). Does not decide digit placement.",
        rule=RULE_TEXT,
        level='static rule instances over MIR; decides length, error kind/index provenance, accepted alphabet and capacity ordering of the parsers',
        technique='static analysis: symbolic length, error-provenance dataflow, guard dominance, constant-match check'),
    "C17": dict(fn=check_c17,
        explanation='OVF: no overflow-checked arithmetic on the caller-supplied count without a dominating bound (n < end - start), so debug and release agree for arguments up to usize::MAX; INV: every store to range.start/end is one of the invariant-preserving updates (start <= end; exhausted stays exhausted); CONST: size_hint/count = end - start, next/nth/next_back/nth_back/last index get() at the expected position, new = 0..len; SAFE: the iterator holds &B so iterating cannot modify the vector; iter()/into_iter are forwarders.',
        rule=RULE_TEXT,
        level='static rule instances over MIR; decides profile-independence on huge arguments, the range invariant, index expressions and immutability of iteration',
        technique='static analysis: guard dominance on checked arithmetic, invariant-preservation per store, type-level immutability'),
    "C18": dict(fn=check_c18,
        explanation='GUARD-RESERVE: every Bvd length growth is dominated by a sufficient reserve and every Bvd aggregate allocates cap(len) words (len <= capacity by construction); USED: no Bvd storage write is bounded by allocated rather than used words (spare capacity never changes what later operations do); GUARD-BVP: every call from Bv into an inline operation that could overflow is dominated by reserve()/a capacity comparison; SIB-CAP: reserve allocates cap(len+k), shrink_to_fit cap(len), Bv promotes/demotes under the same predicate zeros uses; LEN: reserve/shrink_to_fit never store the length and copy verbatim; DISPATCH symmetry.',
        rule=RULE_TEXT,
        level='static rule instances over MIR; decides len <= capacity, unbounded growth, allocation sizes and mode-switch predicates',
        technique='static analysis: reserve/guard dominance on all paths, allocation-slot comparison, verbatim-copy (REALLOC) classification'),
    "C19": dict(fn=check_c19,
        explanation='GUARD-CAP: every Bvf length growth or caller-controlled construction (zeros, ones, new, from_*, read, push, resize, TryFrom*) is dominated by a comparison of the new length with capacity() whose failing edge panics or returns Err - evaluated with debug assertions ON and OFF (a debug_assert!-only check disappears from the release CFG and is reported); append/prepend/insert/extend/collect/sign_extend reach the guarded primitives; DEBUG-IDX: get/set/copy_range carry their index assertion in debug builds.',
        rule=RULE_TEXT,
        level='static dominance rule over the pruned CFG of both build profiles; the property is precisely a guard-dominance property',
        technique='static analysis: guard dominance in two build configurations'),
    "C20": dict(fn=check_c20,
        explanation='FWD over all 1178 operator impl fns: each is a kernel or a pure forwarder (one same-family operator call per path, operands in order, result returned/stored unchanged, same Bv variant, only clone/integer lifting besides), the forwarding graph reaches a kernel of the same operator; SIB: Shl/Shr/Not for &Bvd agree with their in-place twins; SAFE: no interior mutability in any vector type, sealed word-type set, BitIterator holds &B, Bvd: Clone deep-copies - so &-operands and earlier clones cannot be modified by safe code. Thorough: MATRIX witness crate.',
        rule=RULE_TEXT,
        level='static rule instances over MIR + type-system facts; agreement of all forms is by construction relative to the kernels, operand immutability is a type-level proof',
        technique='static analysis: pure-forwarder check over the operator universe, sibling comparison, type-level facts, compile-only witness crate'),
    "C03": dict(fn=check_c03,
                level="static rule instances over the compiler's MIR: every raw storage writer is classified and its class "
                      "rule checked on all paths in both build profiles. This decides the invariant-preservation clause "
                      "(bits >= len zero after every operation) that 'no hidden state after any history' rests on, by "
                      "induction over operations rather than by sampling histories",
                technique="static analysis: MIR dataflow/dominance (writer classification, must-pass-through mask, shrink rule, used-words rule, dispatch symmetry)",
                explanation="Every function that can write storage words (discovered from MIR: assignments and &mut-passing "
                            "calls through a `data` field or a local that flows into one) is classified into exactly one writer "
                            "class (K0 canonicaliser, K1 masked-end, K2 length-masked value, K3 zero-only, K4 and-only, K6 "
                            "masked-source copy, COPY, K5 table) and its class rule is checked on the pruned CFG of both "
                            "build configurations; plus the shrink rule for every length store, the used-words rule for Bvd "
                            "and mode symmetry of every Bv method. Decides: the padding invariant (bits >= len are zero in "
                            "all words) is re-established by every writer - the guarantee half of the assume/guarantee "
                            "argument behind 'no hidden state'. Does not decide values written inside 0..len.",
                rule="instance = (writer function, class rule) / (length store, shrink rule) / (Bvd fn, used-words rule) / "
                     "(Bv method, symmetry); non-trivial = instance whose rule had a non-vacuous premise (not a floor/anchor)"),
}


# ---- explanation addenda for the rule families added after the first registry was written (DESIGN sections 13-15) ----------
_DBG = ("DBGFX: the side effects of the functions this property depends on are the same with debug assertions on and off "
        "(nothing mutating inside debug_assert!/cfg!(debug_assertions)).")
_ADDENDA = {
    "C01": _DBG + " Helpers introduced after the review are seen through (census-based inlining); a kernel moved into a closure-parameterised "
           "helper is reported undecided for CARRY/COVER but stays under MASK/USED, and a helper that builds a vector is judged on its own.",
    "C02": _DBG,
    "C03": "POS: a word index taken from enumerate() behind a filtering adaptor counts surviving items, not positions. ZIPREF: the left operand "
           "of a zip over by_ref() iterators is not consumed again. " + _DBG + " (crate-wide).",
    "C04": _DBG,
    "C05": "OVF-SHIFT: every overflow-checked + or * on the saturated shift amount is one of three bounded forms (reasoned table). " + _DBG,
    "C07": _DBG,
    "C08": "LENFLOW halves: on every path of split_off / split the returned high part has len - index bits and self keeps index bits (symbolic "
           "lengths through copy_range / resize / truncate / mem::replace, proved linearly or refuted by a small model). SHRINK/MASK on resize: split_off/split/truncate leave the low part in place through resize(index), which must clear what it drops. " + _DBG,
    "C09": "ZIPREF: the left operand of a zip over by_ref() iterators is not consumed again (zip drops one of its items). Comparing raw word slices "
           "of different lengths is lexicographic, not numeric (violation); equal explicit lengths or iterator adaptors are undecided. VACUOUS: a word "
           "test over the index range [a.int_len(), b.int_len()) that reads a (always its zero extension) examines the wrong operand.",
    "C10": "ZIPREF on eq/hash (an equality that skips a word makes values with different hashes equal); the hasher may be fed from a closure or "
           "from a helper introduced after the review (tainted through them). ENDANCHOR: a reversed walk over a vector's whole allocation limited "
           "to a number of used words starts at the wrong word when there is spare capacity. SLOT: each word type's leading_zeros is the std one. " + _DBG,
    "C11": "NOPANIC: in vector -> integer conversions every bounds check is discharged by a loop bound over the used words or a guard on the storage "
           "length, and there is no explicit panic. " + _DBG,
    "C12": "LENFLOW: a conversion assembled from another conversion plus resize/push/... has, on every path, the source's length (callee length "
           "effect composed with the body's arithmetic; refuted by a small concrete model, else undecided). POS: a word index taken from enumerate() behind a filtering adaptor counts surviving items, not positions. " + _DBG,
    "C13": _DBG,
    "C15": _DBG,
    "C18": "GUARD-CAP: len <= capacity for the fixed type too (every Bvf growth / construction is capacity-checked in both profiles). ORDER: extend/collect reserve the size hint and then push (each push re-checks capacity / promotes); with_capacity allocates "
           "capacity_from_bit_len(c) words; promotion/demotion predicates are matched as relations (any spelling). " + _DBG,
    "C19": "GUARD-PRED: the error predicates on the Bvf side are exact, not merely present. DEBUG-IDX: the index assertion's passing edge dominates "
           "every return. " + _DBG,
    "C20": "MASK/USED on the operator kernels and Clone, NARROW, CARRY for integer right-hand sides: the forms can only agree if every kernel behind "
           "them is canonical on its own (twin comparisons are reported as leads only); COVER/POS: sibling kernels of one operator cover every word "
           "position and address words by position, not by rank behind a filter. " + _DBG,
}
for _pid, _txt in _ADDENDA.items():
    PROPS[_pid]["explanation"] = PROPS[_pid]["explanation"].rstrip() + " " + _txt
PROPS["C17"]["explanation"] = (
    "ITER: every path of every BitIterator method is summarised as affine forms over the entry state (range.start, range.end, n) and compared "
    "with the slice-iterator contract: guard, returned element index, final range (exhausted after an over-run), every addition/subtraction "
    "bounded by the guards before it (so debug and release agree for arguments up to usize::MAX); calls between the methods are expanded from "
    "the callee summaries; optional overrides may be absent. SAFE: the iterator holds &B so iterating cannot modify the vector; iter()/into_iter "
    "are forwarders. " + _DBG)
PROPS["C17"]["level"] = ("static path summaries (affine dataflow, no execution, no solver) over MIR; decides the per-call contract of the iterator "
                         "including huge arguments and exhaustion")
PROPS["C17"]["technique"] = ("static analysis: affine propagation along the loop-free paths of each method, comparison with a contract table, "
                             "interprocedural summaries")
