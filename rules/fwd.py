"""FWD / DISPATCH: every operator impl fn is a kernel or a pure forwarder (DESIGN §4 FWD).

A *kernel* has a loop, raw storage access or a storage aggregate. Every other impl fn of an
operator trait for Bvf/Bvd/Bv (owned or borrowed) must be a *pure forwarder*:
  - exactly one call of the same operator family on every path (the trait's own method, its
    assign/non-assign twin, or div_rem for Div/Rem),
  - whose first operand is `self` (possibly a clone of it / the payload of a matched Bv variant)
    and whose second operand is the rhs parameter (possibly lifted from an integer by
    Bvf::<u64,2>::try_from(..).unwrap() / Bvd::from(..), or the payload of a matched Bv variant),
  - whose result is returned unchanged (re-wrapped in the *same* Bv variant; `.0` for Div and
    `.1` for Rem of div_rem), or stored to *self for the assign forms,
  - and no other call except Clone::clone / the integer lifting.
The forwarding graph must be acyclic and every node must reach a kernel of the same operator.
"""
from collections import defaultdict

from . import mir
from .mir import show

BASE_OPS = ["Add", "Sub", "Mul", "Div", "Rem", "BitAnd", "BitOr", "BitXor", "Shl", "Shr"]
METHOD = {"Add": "add", "Sub": "sub", "Mul": "mul", "Div": "div", "Rem": "rem", "BitAnd": "bitand",
          "BitOr": "bitor", "BitXor": "bitxor", "Shl": "shl", "Shr": "shr", "Not": "not"}
OP_TRAITS = set(BASE_OPS) | {o + "Assign" for o in BASE_OPS} | {"Not"}
FAMILIES = ("Bvf", "Bvd", "Bv")


def op_base(trait):
    return trait[:-6] if trait.endswith("Assign") else trait


def universe(crate):
    return [b for b in crate.bodies if b.kind != "Closure" and b.trait in OP_TRAITS and b.self_family in FAMILIES]


def touches_storage(b):
    """raw storage access: any place/operand expression that goes through a `data` field, or an aggregate
    of Bvf/Bvd"""
    for _, _, st in b.iter_stmts():
        if st["s"] != "assign":
            continue
        if "data" in mir.field_path(b.e_place(st["p"])):
            return True
        r = st["r"]
        if r["k"] == "agg" and r.get("ak") == "adt" and r["adt"].split("::")[-1] in ("Bvf", "Bvd"):
            return True
        for key in ("p",):
            if key in r and isinstance(r[key], dict) and any(
                    isinstance(el, dict) and el.get("fname") == "data" for el in r[key]["pr"]):
                return True
        for key in ("o", "a", "b"):
            o = r.get(key)
            if isinstance(o, dict) and o.get("k") in ("copy", "move") and any(
                    isinstance(el, dict) and el.get("fname") == "data" for el in o["p"]["pr"]):
                return True
    return False


def is_kernel(b, depth=0):
    """a loop or raw storage access in the body itself - or in a helper introduced after the review that it calls
    (the kernel's loop moved into a private helper is still this operator's kernel)"""
    if bool(b.loops()) or touches_storage(b):
        return True
    if depth < 3:
        for bb, t, fn in b.iter_calls():
            h = b.crate.new_helper(fn)
            if h is not None and h is not b and is_kernel(h, depth + 1):
                return True
    return False


def _strip_self(e):
    """normalise the first operand: clone(x) -> x ; (x as V).0 -> ('payload', V, x)"""
    variant = None
    while True:
        if mir.is_call(e, "clone") and len(e[3]) == 1:
            e = e[3][0]
            continue
        if e[0] == "field" and e[2] == "0" and e[1][0] == "variant":
            variant = e[1][2]
            e = e[1][1]
            continue
        break
    return e, variant


def _strip_rhs(e):
    variant = None
    lifted = None
    while True:
        if mir.is_call(e, "unwrap") and len(e[3]) == 1 and mir.is_call(e[3][0], "try_from"):
            lifted = "try_from+unwrap"
            e = e[3][0][3][0]
            continue
        if mir.is_call(e, "from") and len(e[3]) == 1:
            lifted = "from"
            e = e[3][0]
            continue
        if e[0] == "field" and e[2] == "0" and e[1][0] == "variant":
            variant = e[1][2]
            e = e[1][1]
            continue
        break
    return e, variant, lifted


class FwdResult:
    def __init__(self):
        self.kernels = []          # bodies
        self.forwarders = []       # (body, [opcall infos])
        self.problems = []         # (body, msg)
        self.edges = {}            # body.path -> list of target descriptors
        self.opaque = {}           # body.path -> reason (forwarders routed through a new helper + closures)
        self.kind = {}             # body.path -> 'kernel' | 'forwarder' | 'opaque'


def analyse(crate):
    res = FwdResult()
    uni = universe(crate)
    res.universe = uni
    by_class = defaultdict(list)
    for b in uni:
        by_class[(b.trait, b.self_family)].append(b)
    res.by_class = by_class
    for b in uni:
        if is_kernel(b):
            res.kernels.append(b)
            res.kind[b.path] = "kernel"
            continue
        res.kind[b.path] = "forwarder"
        probs, opcalls = check_forwarder(b)
        if len(probs) == 1 and probs[0].startswith("<via-helper"):
            res.kind[b.path] = "opaque"
            res.opaque[b.path] = probs[0].strip("<>")
            continue
        for p in probs:
            res.problems.append((b, p))
        res.forwarders.append((b, opcalls))
        res.edges[b.path] = opcalls
    # div_rem kernels are the BitVector::div_rem impls
    res.div_rem = [b for b in crate.bodies if b.trait == "BitVector" and b.name == "div_rem"]
    # reachability
    res.reach_problems = []
    memo = {}

    def reaches(b, base, stack):
        """True if every op call of forwarder b leads to a kernel of operator `base`"""
        if b.path in memo:
            return memo[b.path]
        if b.path in stack:
            return "cycle through %s" % b.key
        if res.kind.get(b.path) == "opaque":
            return True         # not followed (reported as undecided on its own)
        if res.kind.get(b.path) == "kernel":
            ok = op_base(b.trait) == base
            memo[b.path] = True if ok else "kernel %s is of operator %s, not %s" % (b.key, op_base(b.trait), base)
            return memo[b.path]
        if b.trait == "BitVector" and b.name == "div_rem":
            return True if base in ("Div", "Rem") else "div_rem reached from %s" % base
        out = True
        for oc in res.edges.get(b.path, []):
            targets = resolve_targets(crate, res, oc)
            if not targets:
                out = "op call %s resolves to no in-crate impl" % oc["callee"]
                break
            for t in targets:
                r = reaches(t, base, stack | {b.path})
                if r is not True:
                    out = r
                    break
            if out is not True:
                break
        if not res.edges.get(b.path):
            out = "no operator call"
        memo[b.path] = out
        return out

    for b, _ in res.forwarders:
        r = reaches(b, op_base(b.trait), frozenset())
        if r is not True:
            res.reach_problems.append((b, r))
    return res


def resolve_targets(crate, res, oc):
    fn = oc["fn"]
    if "res" in fn and fn["res"].get("local"):
        t = crate.body(fn["res"]["path"])
        return [t] if t else []
    if fn.get("local") and not fn.get("trait"):
        t = crate.body(fn["path"])
        return [t] if t else []
    # unresolved trait method: all in-crate impls of (trait, family of Self)
    tr = fn.get("trait", "").split("::")[-1]
    fam = mir.ty_family(fn["args"][0]) if fn.get("args") else None
    if tr == "BitVector" and fn["name"] == "div_rem":
        return [b for b in res.div_rem if b.self_family == fam]
    return list(res.by_class.get((tr, fam), []))


def check_forwarder(b):
    probs = []
    base = op_base(b.trait)
    assign = b.trait.endswith("Assign")
    m = METHOD[base]
    allowed_ops = {m, m + "_assign"} if base != "Not" else {"not"}
    if base in ("Div", "Rem"):
        allowed_ops.add("div_rem")
    helper = {"clone", "from", "try_from", "unwrap", "expect", "into", "try_into"}
    opcalls = []
    via_helper = []
    for bb, t, fn in b.iter_calls():
        if fn is None:
            probs.append("indirect call in forwarder")
            continue
        name = fn["name"]
        if name in allowed_ops:
            e = b.e_call(t)
            args = tuple(b.e_operand(a) for a in t["args"])
            opcalls.append(dict(bb=bb, fn=fn, name=name, args=args, callee=mir.callee_qual(fn), dest=t["d"]))
        elif name in helper:
            continue
        elif b.crate.new_helper(fn) is not None:
            via_helper.append(b.crate.new_helper(fn).name)
        else:
            probs.append("unexpected call `%s` in a forwarder (allowed: one %s call, clone, integer lifting)"
                         % (mir.callee_qual(fn), "/".join(sorted(allowed_ops))))
    if not opcalls and via_helper and not probs:
        # the operator call sits in a closure handed to a dispatch helper introduced after the review
        # (`self.with_inner(rhs, |b, r| b.op(r), ..)`): operand order is not extracted from closures
        return ["<via-helper %s>" % ", ".join(sorted(set(via_helper)))], opcalls
    if not opcalls:
        probs.append("forwarder without an operator call of its own family")
        return probs, opcalls
    # exactly one op call per path
    blocks = [oc["bb"] for oc in opcalls]
    for oc in opcalls:
        others = [x for x in blocks if x != oc["bb"]]
        reach = b.reach_avoiding(b.succ[oc["bb"]])
        if any(o in reach for o in others):
            probs.append("two operator calls on one path")
            break
    okp, bad = b.must_pass_to_return((0, -1), [b.call_loc(x) for x in blocks])
    if not okp:
        probs.append("a path returns without calling the operator (return block bb%d)" % bad)
    # operand order / identity
    self_name = b.local_name(1)
    for oc in opcalls:
        a = oc["args"]
        if not a:
            probs.append("operator call without operands")
            continue
        e0, v0 = _strip_self(a[0])
        if e0[0] == "var":
            init = b.init_expr(e0[2])
            if init is not None:
                e0i, v0i = _strip_self(init)
                if e0i == ("param", self_name):
                    e0 = e0i
        if e0 != ("param", self_name):
            probs.append("first operand of %s is `%s`, not self" % (oc["name"], show(a[0])))
        oc["self_variant"] = v0
        if base != "Not":
            if len(a) < 2:
                probs.append("operator call with a single operand")
                continue
            e1, v1, lifted = _strip_rhs(a[1])
            if b.arg_count < 2 or e1 != ("param", b.local_name(2)):
                probs.append("second operand of %s is `%s`, not the rhs parameter" % (oc["name"], show(a[1])))
            oc["rhs_variant"] = v1
            oc["lifted"] = lifted
            if lifted and b.trait_args and mir.ty_family(b.trait_args[0]) != "uint":
                probs.append("rhs of non-integer type is converted before forwarding")
    # result handling
    if assign:
        # either assign-form call (effect on self) or `*self = call`
        for oc in opcalls:
            if oc["name"].endswith("_assign"):
                continue
            stored = False
            for bb, i, st in b.iter_stmts():
                if st["s"] == "assign" and st["p"]["l"] == 1 and st["p"]["pr"] == ["*"]:
                    v = b.e_rvalue(st["r"])
                    if _is_result_of(v, oc, base):
                        stored = True
            if not stored:
                # call writing directly into *self
                d = oc["dest"]
                if d["l"] == 1 and d["pr"] == ["*"] and base not in ("Div", "Rem"):
                    stored = True
            if not stored:
                probs.append("result of %s is not stored to *self" % oc["name"])
    else:
        ret = b.return_expr()
        alts = ret[2] if ret[0] == "phi" else (ret,)
        for alt in alts:
            if not _ret_ok(b, alt, opcalls, base, self_name):
                probs.append("returned value `%s` is not the forwarded operator result" % show(alt)[:160])
    return probs, opcalls


def _is_result_of(v, oc, base):
    """v is the (projection of the) result of op call oc"""
    if base in ("Div", "Rem") and oc["name"] == "div_rem":
        want = "0" if base == "Div" else "1"
        return v[0] == "field" and v[2] == want and mir.is_call(v[1], "div_rem") and v[1][3] == oc["args"]
    if v[0] == "call" and v[1] == oc["name"] and v[3] == oc["args"]:
        return True
    if v[0] in ("bin", "un"):
        # trait-operator calls are normalised to bin/un nodes
        return tuple(v[2:]) == tuple(oc["args"])
    return False


def _ret_ok(b, alt, opcalls, base, self_name):
    # Bv re-wrap in the same variant
    if alt[0] == "agg" and alt[1] == "Bv" and len(alt[3]) == 1:
        inner = alt[3][0]
        for oc in opcalls:
            if _is_result_of(inner, oc, base):
                return oc.get("self_variant") == alt[2]
        return False
    for oc in opcalls:
        if _is_result_of(alt, oc, base):
            return True
    # `self.op_assign(rhs); return self` / `let mut r = self.clone(); r.op_assign(rhs); return r`
    if any(oc["name"].endswith("_assign") for oc in opcalls):
        if alt == ("param", self_name):
            return True
        if alt[0] == "var":
            init = b.init_expr(alt[2])
            if init is not None and _strip_self(init)[0] == ("param", self_name):
                return True
    return False
