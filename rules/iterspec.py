"""ITER: BitIterator methods against the slice-iterator contract, by affine propagation along the (loop-free) paths.

The iterator is `{ bv: &B, range: Range<usize> }` and its methods are branch-only code over `range.start`,
`range.end` and the argument `n`. For each method every path of the pruned CFG is walked once, propagating *affine
forms over the entry values* S = range.start, E = range.end, n (Karr-style affine dataflow; nothing is executed and no
solver is involved: guards and results are compared after normalisation to `f < 0` / `f == 0`). Per path this gives

    guards (normalised relations), returned value, final range.start, final range.end, overflow-checked additions

which are compared with the contract table of the method:

    next        S < E   -> Some(get(S)),     start' = S+1, end' = E        else None, range still empty
    next_back   S < E   -> Some(get(E-1)),   start' = S,   end' = E-1      else None, range still empty
    nth(n)      n < E-S -> Some(get(S+n)),   start' = S+n+1, end' = E      else None, start' == end' (exhausted)
    nth_back(n) n < E-S -> Some(get(E-n-1)), start' = S,   end' = E-n-1    else None, start' == end'
    last        S < E   -> Some(get(E-1))                                   else None
    size_hint   (E-S, Some(E-S))      count   E-S       new   range = 0..len(bv)

Under the type invariant S <= E, `S != E` is accepted for `S < E` and `Range::is_empty` for its negation. Which end of
an exhausted range is moved is not observable and not prescribed. Every overflow-checked addition on a path must be
bounded by E through the path's guards (so debug and release builds agree for any n up to usize::MAX).

A path whose guards or state cannot be expressed (calls that take `&mut range`, matches on opaque values) is reported as
undecided, not as a violation; a path that returns something other than the prescribed `get` element is a violation.
"""
from . import mir
from .mir import short_ty

MAXPATHS = 200


# ---- affine forms: dict sym -> coef, const under key 1 ---------------------------------------------------------------
def A(const=0, **syms):
    d = {k: v for k, v in syms.items() if v}
    if const:
        d[1] = const
    return ("aff", tuple(sorted(d.items(), key=lambda kv: str(kv[0]))))


def _d(a):
    return dict(a[1])


def aff_add(a, b, sign=1):
    d = _d(a)
    for k, v in _d(b).items():
        d[k] = d.get(k, 0) + sign * v
    return ("aff", tuple(sorted(((k, v) for k, v in d.items() if v), key=lambda kv: str(kv[0]))))


def aff_scale(a, c):
    return ("aff", tuple(sorted(((k, v * c) for k, v in _d(a).items() if v * c), key=lambda kv: str(kv[0]))))


def is_aff(v):
    return isinstance(v, tuple) and v and v[0] == "aff"


def aff_show(a):
    d = _d(a)
    parts = []
    for k in sorted((k for k in d if k != 1), key=str):
        c = d[k]
        parts.append(("%s%s" % ("+" if c > 0 else "-", k)) if abs(c) == 1 else "%+d*%s" % (c, k))
    if 1 in d:
        parts.append("%+d" % d[1])
    s = "".join(parts) or "0"
    return s[1:] if s.startswith("+") else s


S, E, N = A(S=1), A(E=1), A(n=1)
ZERO = A()
MAXV = A(**{"usize::MAX": 1})


def _subst(a, m):
    out = A(_d(a).get(1, 0))
    for k, c in _d(a).items():
        if k == 1:
            continue
        out = aff_add(out, aff_scale(m[k], c) if k in m else ("aff", ((k, c),)))
    return out


def _subst_rel(r, m):
    f = _subst(r[1], m)
    return (r[0], _canon_sign(f) if r[0] != "lt0" else f)


def _subst_val(v, m):
    if is_aff(v):
        return _subst(v, m)
    if isinstance(v, tuple) and v and v[0] in ("get", "some"):
        return (v[0], _subst_val(v[1], m))
    if isinstance(v, tuple) and v and v[0] == "tuple":
        return ("tuple", tuple(_subst_val(x, m) for x in v[1]))
    return v


_SUMMARIES = {}


def _summary(b, depth=0):
    k = (id(b.crate), b.path)
    if k not in _SUMMARIES:
        w = Walker(b, depth)
        _SUMMARIES[k] = w
        w.run()
    return _SUMMARIES[k]


# ---- relations: ('lt0', f) means f < 0 ; ('eq0', f) ; ('ne0', f) -------------------------------------------------------
def _canon_sign(f):
    d = _d(f)
    ks = sorted((k for k in d), key=str)
    if ks and d[ks[0]] < 0:
        return aff_scale(f, -1)
    return f


def rel(op, a, b):
    if op == "Lt":
        return ("lt0", aff_add(a, b, -1))
    if op == "Le":
        return ("lt0", aff_add(aff_add(a, b, -1), A(-1)))
    if op == "Gt":
        return rel("Lt", b, a)
    if op == "Ge":
        return rel("Le", b, a)
    if op == "Eq":
        return ("eq0", _canon_sign(aff_add(a, b, -1)))
    if op == "Ne":
        return ("ne0", _canon_sign(aff_add(a, b, -1)))
    return None


def neg(r):
    if r[0] == "lt0":
        return ("lt0", aff_add(aff_scale(r[1], -1), A(-1)))
    return ("ne0" if r[0] == "eq0" else "eq0", r[1])


def rel_show(r):
    return "%s %s 0" % (aff_show(r[1]), {"lt0": "<", "eq0": "==", "ne0": "!="}[r[0]])


NONEMPTY = rel("Lt", S, E)
EMPTY = neg(NONEMPTY)
NE_SE = rel("Ne", S, E)
EQ_SE = rel("Eq", S, E)
N_IN = rel("Lt", N, aff_add(E, S, -1))
N_OUT = neg(N_IN)


# ---- path walker -------------------------------------------------------------------------------------------------------
class Path:
    def __init__(self):
        self.env = {}
        self.start, self.end = S, E
        self.guards = []
        self.unknown = []       # reasons why the path is not fully tracked
        self.adds = []          # additions (x, y, guards before) seen on the path
        self.subs = []          # subtractions (x, y, guards before) seen on the path
        self.ret = None

    def clone(self):
        p = Path()
        p.env = dict(self.env)
        p.start, p.end = self.start, self.end
        p.guards = list(self.guards)
        p.unknown = list(self.unknown)
        p.adds = list(self.adds)
        p.subs = list(self.subs)
        return p


class Walker:
    def __init__(self, b, depth=0):
        self.b = b
        self.paths = []
        self.aborted = None
        self.has_n = b.arg_count >= 2 and "usize" in b.local_ty(2)
        self.depth = depth
        self.ctor = "BitIterator" not in b.local_ty(1)      # `new(bv)`: the first parameter is the vector, not self

    # -- places ------------------------------------------------------------------------------------------------------
    def _self_path(self, p, st):
        """place rooted at self (local 1) or at a local holding a reference into self -> tuple of field names, else None"""
        l, pr = p["l"], p["pr"]
        base = None
        if l == 1 and not self.ctor:
            base = ()
        else:
            v = st.env.get(l)
            if isinstance(v, tuple) and v and v[0] == "ref" and pr and pr[0] == "*":
                base = v[1]
        if base is None:
            return None
        path = list(base)
        for x in pr:
            if x == "*":
                continue
            if isinstance(x, dict) and "fname" in x:
                path.append(x["fname"])
            else:
                return None
        return tuple(path)

    def read_place(self, p, st):
        sp = self._self_path(p, st)
        if sp is not None:
            if sp == ("range", "start"):
                return st.start
            if sp == ("range", "end"):
                return st.end
            if sp == ("range",):
                return ("rangeval", st.start, st.end)
            if sp == ("bv",):
                return ("bv",)
            if sp == ():
                return ("self",)
            return ("unk", "field %s" % ".".join(sp))
        v = st.env.get(p["l"], ("unk", "local _%d" % p["l"]))
        if p["l"] == 1 and self.ctor and p["l"] not in st.env:
            return ("bv",)
        if p["l"] == 2 and self.has_n and p["l"] not in st.env:
            v = N
        for x in p["pr"]:
            if x == "*":
                continue
            if isinstance(x, dict) and "f" in x:
                if isinstance(v, tuple) and v and v[0] == "pair":
                    v = v[1] if x["f"] == 0 else ("ovf",)
                elif isinstance(v, tuple) and v and v[0] == "tuple" and x["f"] < len(v[1]):
                    v = v[1][x["f"]]
                elif isinstance(v, tuple) and v and v[0] == "rangeval":
                    v = v[1] if x.get("fname") == "start" else v[2]
                else:
                    v = ("unk", "projection of %s" % (v[0] if isinstance(v, tuple) else v))
            else:
                v = ("unk", "projection")
        return v

    def operand(self, o, st):
        if o["k"] == "const":
            if "int" in o:
                return A(int(o["int"]))
            return ("unk", "const %s" % o.get("v", "?"))
        return self.read_place(o["p"], st)

    def write_place(self, p, v, st):
        sp = self._self_path(p, st)
        if sp is not None:
            if sp == ("range", "start"):
                st.start = v if is_aff(v) else self._lost(st, "range.start := %s" % (v,))
            elif sp == ("range", "end"):
                st.end = v if is_aff(v) else self._lost(st, "range.end := %s" % (v,))
            elif sp == ("range",) and isinstance(v, tuple) and v[0] == "rangeval":
                st.start, st.end = v[1], v[2]
            elif sp and sp[0] == "range":
                self._lost(st, "store to %s" % ".".join(sp))
                st.start = st.end = ("unk", "lost")
            return
        if not p["pr"]:
            st.env[p["l"]] = v
        else:
            st.env[p["l"]] = ("unk", "partial store")

    def _lost(self, st, why):
        st.unknown.append(why)
        return ("unk", why)

    # -- statements ---------------------------------------------------------------------------------------------------
    def rvalue(self, r, st):
        k = r["k"]
        if k == "use":
            return self.operand(r["o"], st)
        if k in ("ref", "rawptr", "copyforderef"):
            sp = self._self_path(r["p"], st)
            if sp is not None:
                if sp == ("bv",):
                    return ("bv",)
                return ("ref", sp, bool(r.get("m")))
            v = self.read_place(r["p"], st)
            return v
        if k == "bin":
            a, c = self.operand(r["a"], st), self.operand(r["b"], st)
            op = r["op"]
            base = op.replace("WithOverflow", "")
            res = ("unk", "%s of non-affine operands" % base)
            if is_aff(a) and is_aff(c):
                if base == "Add":
                    res = aff_add(a, c)
                elif base == "Sub":
                    res = aff_add(a, c, -1)
                elif base == "Mul" and (not [k2 for k2 in _d(a) if k2 != 1] or not [k2 for k2 in _d(c) if k2 != 1]):
                    ca, cc = _d(a), _d(c)
                    res = aff_scale(c, ca.get(1, 0)) if not [k2 for k2 in ca if k2 != 1] else aff_scale(a, cc.get(1, 0))
                elif base in ("Lt", "Le", "Gt", "Ge", "Eq", "Ne"):
                    res = ("rel", rel(base, a, c))
                if base == "Add":
                    st.adds.append((a, c, tuple(st.guards)))
                if base == "Sub":
                    st.subs.append((a, c, tuple(st.guards)))
            if op.endswith("WithOverflow"):
                return ("pair", res)
            return res
        if k == "un":
            v = self.operand(r["o"], st)
            if r["op"] == "Not" and isinstance(v, tuple) and v[0] == "rel":
                return ("rel", neg(v[1]))
            return ("unk", "unary %s" % r["op"])
        if k == "cast":
            v = self.operand(r["o"], st)
            return v
        if k == "agg":
            fs = [self.operand(o, st) for o in r["fs"]]
            if r["ak"] == "adt":
                name = short_ty(r["adt"])
                if name == "Option":
                    return ("some", fs[0]) if r["variant"] == "Some" else ("none",)
                if name.startswith("Range") and len(fs) == 2:
                    return ("rangeval", fs[0], fs[1])
                return ("adt", name, tuple(fs), tuple(r.get("fnames", [])))
            if r["ak"] == "tuple":
                return ("tuple", tuple(fs))
        return ("unk", "rvalue %s" % k)

    def call(self, t, st):
        """-> list of (state, value): one outcome per case of the callee (min/max/saturating_* split into their two
        cases; calls to other methods of the iterator are expanded from the callee's own path summaries)"""
        fn = t["f"].get("fn") if t["f"]["k"] == "const" else None
        name = fn["name"] if fn else "<indirect>"
        args = [self.operand(a, st) for a in t["args"]]
        res_path = (fn or {}).get("res", {}).get("path")
        callee = self.b.crate.body(res_path) if res_path else None
        if callee is not None and (callee.self_ty or "").startswith("BitIterator") and callee is not self.b and callee.name != "new" \
                and self.depth < 4 and args and isinstance(args[0], tuple) and args[0][:2] in (("ref", ()), ("self",)):
            return self._expand(callee, args, st)
        # a &mut into the range handed to a callee: the state is no longer tracked
        for a in args:
            if isinstance(a, tuple) and a and a[0] == "ref" and len(a) > 2 and a[2] and a[1][:1] == ("range",):
                self._lost(st, "call %s(&mut self.%s)" % (name, ".".join(a[1])))
                st.start = st.end = ("unk", "lost")
            if isinstance(a, tuple) and a and a[0] == "ref" and len(a) > 2 and a[2] and a[1] == ():
                self._lost(st, "call %s(&mut self)" % name)
                st.start = st.end = ("unk", "lost")
        if name == "get" and len(args) == 2 and args[0] == ("bv",):
            return [(st, ("get", args[1]))]
        if name == "len" and len(args) == 1 and args[0] == ("bv",):
            return [(st, A(**{"len(bv)": 1}))]
        if name == "is_empty" and len(args) == 1 and isinstance(args[0], tuple) and args[0][0] == "ref" and args[0][1] == ("range",):
            if is_aff(st.start) and is_aff(st.end):
                return [(st, ("rel", rel("Ge", st.start, st.end)))]
        if name == "len" and len(args) == 1 and isinstance(args[0], tuple) and args[0][0] == "ref" and args[0][1] == ("range",) \
                and is_aff(st.start) and is_aff(st.end):
            # ExactSizeIterator::len of Range<usize> is end - start (saturating; exact under start <= end)
            return [(st, aff_add(st.end, st.start, -1))]
        if name in ("clone", "into", "from", "borrow", "deref") and len(args) == 1:
            a = args[0]
            if isinstance(a, tuple) and a and a[0] == "ref" and a[1] == ("range",):
                return [(st, ("rangeval", st.start, st.end))]
            return [(st, a)]
        if len(args) == 2 and is_aff(args[0]) and is_aff(args[1]) and (fn or {}).get("crate") in ("core", "std"):
            x, y = args
            def split(g, v_true, v_false):
                s1, s2 = st.clone(), st.clone()
                s1.guards.append(g)
                s2.guards.append(neg(g))
                return [(s1, v_true), (s2, v_false)]
            if name == "min":
                return split(rel("Le", x, y), x, y)
            if name == "max":
                return split(rel("Le", x, y), y, x)
            if name == "saturating_sub":
                return split(rel("Ge", x, y), aff_add(x, y, -1), ZERO)
            if name == "saturating_add":
                return split(rel("Le", aff_add(x, y), MAXV), aff_add(x, y), MAXV)
            if name == "wrapping_add":
                # equals x + y only when it does not wrap
                s1, s2 = st.clone(), st.clone()
                s1.guards.append(rel("Le", aff_add(x, y), MAXV))
                s2.guards.append(neg(rel("Le", aff_add(x, y), MAXV)))
                return [(s1, aff_add(x, y)), (s2, aff_add(aff_add(aff_add(x, y), MAXV, -1), A(-1)))]
        if (fn or {}).get("crate") in ("core", "std", "alloc") and not (fn or {}).get("res", {}).get("local"):
            return [(st, ("unk", "unmodelled library call %s" % name))]
        return [(st, ("call", name, tuple(args)))]

    def _expand(self, callee, args, st):
        w = _summary(callee, self.depth + 1)
        if w.aborted or not w.paths:
            self._lost(st, "callee %s not summarised" % callee.name)
            st.start = st.end = ("unk", "lost")
            return [(st, ("unk", "callee"))]
        if not (is_aff(st.start) and is_aff(st.end)):
            return [(st, ("unk", "callee on untracked range"))]
        m = {"S": st.start, "E": st.end}
        if len(args) > 1:
            if not is_aff(args[1]):
                self._lost(st, "non-affine argument to %s" % callee.name)
                return [(st, ("unk", "callee arg"))]
            m["n"] = args[1]
        out = []
        for cp in w.paths:
            s2 = st.clone()
            s2.guards += [_subst_rel(g, m) for g in cp.guards]
            s2.unknown += cp.unknown
            s2.start = _subst(cp.start, m) if is_aff(cp.start) else cp.start
            s2.end = _subst(cp.end, m) if is_aff(cp.end) else cp.end
            for x, y, gs in cp.adds:
                s2.adds.append((_subst(x, m), _subst(y, m), tuple(st.guards) + tuple(_subst_rel(g, m) for g in gs)))
            for x, y, gs in cp.subs:
                s2.subs.append((_subst(x, m), _subst(y, m), tuple(st.guards) + tuple(_subst_rel(g, m) for g in gs)))
            out.append((s2, _subst_val(cp.ret, m)))
        return out

    # -- walk --------------------------------------------------------------------------------------------------------
    def run(self):
        if self.b.loops():
            self.aborted = "the method contains a loop"
            return
        self._walk(0, Path(), 0)

    def _walk(self, bb, st, depth):
        if self.aborted:
            return
        if depth > 200 or len(self.paths) > MAXPATHS:
            self.aborted = "too many paths"
            return
        b = self.b
        for s in b.blocks[bb]["st"]:
            if s["s"] == "assign":
                self.write_place(s["p"], self.rvalue(s["r"], st), st)
        t = b.term(bb)
        k = t["t"]
        succ = b.succ[bb]
        if k == "ret":
            st.ret = st.env.get(0, ("unk", "no return value"))
            self.paths.append(st)
            return
        if k == "call":
            outs = self.call(t, st)
            if "to" not in t:
                return      # diverges (panic): not a path of the contract
            for st2, v in outs:
                self.write_place(t["d"], v, st2)
                self._walk(t["to"], st2, depth + 1)
            return
        if k == "assert":
            self._walk(t["to"], st, depth + 1)
            return
        if k == "switch" and len(succ) > 1:
            d = self.operand(t["d"], st)
            m = {}
            for v, tb in t["tg"]:
                m.setdefault(tb, []).append(v)
            for s2 in succ:
                st2 = st.clone()
                if isinstance(d, tuple) and d[0] == "rel":
                    is_false = "0" in m.get(s2, [])
                    st2.guards.append(neg(d[1]) if is_false else d[1])
                elif isinstance(d, tuple) and d[0] == "ovf":
                    pass
                else:
                    st2.unknown.append("branch on %s" % (d[0] if isinstance(d, tuple) else d,))
                self._walk(s2, st2, depth + 1)
            return
        for s2 in succ[:1]:
            self._walk(s2, st, depth + 1)


# ---- contract ------------------------------------------------------------------------------------------------------------
def _contradictory(gs):
    s = set(gs)
    if any(_const_false(g) for g in s):
        return True
    # g together with the other guards / the invariants implying not-g
    for g in s:
        rest = [h for h in s if h != g]
        if neg(g) in s:
            return True
        if g[0] == "lt0" and _implied_with_inv(rest, neg(g)):
            return True
    return False


def _implies(g, t):
    """g < 0 implies t < 0 when t - g is <= 0 for all non-negative values of the symbols"""
    if g[0] != "lt0" or t[0] != "lt0":
        return g == t
    return all(v <= 0 for v in _d(aff_add(t[1], g[1], -1)).values())


def _const_false(g):
    d = _d(g[1])
    if [k for k in d if k != 1]:
        return False
    c = d.get(1, 0)
    return not {"lt0": c < 0, "eq0": c == 0, "ne0": c != 0}[g[0]]


def _invariants():
    """type invariant S <= E and the range of usize"""
    return [rel("Le", S, E), rel("Le", E, MAXV), rel("Le", S, MAXV), rel("Le", N, MAXV)]


def _implied(gs, t):
    """t follows from one guard, or from two guards/invariants (g1 <= -1 and g2 <= -1 give g1 + g2 + 1 < 0)"""
    if any(_implies(g, t) for g in gs):
        return True
    if t[0] != "lt0":
        return False
    pool = [g for g in list(gs) + _invariants() if g[0] == "lt0"]
    for i, g1 in enumerate(pool):
        for g2 in pool[i + 1:]:
            resid = _d(aff_add(aff_add(t[1], g1[1], -1), g2[1], -1))
            if all((v <= 1 if k == 1 else v <= 0) for k, v in resid.items()):
                return True
    return False


def _implied_with_inv(gs, t):
    return _implied(list(gs) + _invariants(), t)


def _case_of(gs, pos, negs, alt_pos=(), alt_neg=()):
    if _implied(gs, pos) or any(a in gs for a in alt_pos):
        return "in"
    if _implied(gs, negs) or any(a in gs for a in alt_neg):
        return "out"
    return None


def _bounded(x, y, guards):
    """x + y <= E (hence no overflow) follows from one guard g < 0 (or from S <= E) plus non-negativity of S, E, n"""
    t = aff_add(aff_add(aff_add(x, y), E, -1), A(-1))      # want t < 0
    for g in list(guards) + [("lt0", aff_add(aff_add(S, E, -1), A(-1)))]:
        if g[0] != "lt0":
            continue
        resid = _d(aff_add(t, g[1], -1))
        if all(v <= 0 for v in resid.values()):
            return rel_show(g)
    return None


def _has_unk(v):
    if isinstance(v, tuple):
        if v and v[0] == "unk":
            return True
        return any(_has_unk(x) for x in v[1:] if isinstance(x, tuple))
    return False


def _val_show(v):
    if is_aff(v):
        return aff_show(v)
    if isinstance(v, tuple) and v:
        if v[0] == "get":
            return "get(bv, %s)" % _val_show(v[1])
        if v[0] == "some":
            return "Some(%s)" % _val_show(v[1])
        if v[0] == "none":
            return "None"
        if v[0] == "call":
            return "%s(..)" % v[1]
        if v[0] == "tuple":
            return "(%s)" % ", ".join(_val_show(x) for x in v[1])
        if v[0] == "unk":
            return "<%s>" % v[1]
    return str(v)


CONTRACT = {
    # name: (uses n, in-case: (element index, start', end'), out-case rule)
    "next": (False, (S, aff_add(S, A(1)), E), "unchanged"),
    "next_back": (False, (aff_add(E, A(-1)), S, aff_add(E, A(-1))), "unchanged"),
    "nth": (True, (aff_add(S, N), aff_add(aff_add(S, N), A(1)), E), "exhausted"),
    "nth_back": (True, (aff_add(aff_add(E, N, -1), A(-1)), S, aff_add(aff_add(E, N, -1), A(-1))), "exhausted"),
    "last": (False, (aff_add(E, A(-1)), None, None), "none"),
}


def check(crate):
    """[(body, key, verdict, msg)] for the BitIterator methods"""
    res = []
    diff = aff_add(E, S, -1)
    present = set()
    for b in crate.bodies:
        if not (b.self_ty or "").startswith("BitIterator") or b.kind == "Closure":
            continue
        present.add(b.name)
        if b.name not in CONTRACT and b.name not in ("size_hint", "count", "new"):
            if b.trait in ("Iterator", "DoubleEndedIterator", "ExactSizeIterator"):
                # an override this table has no contract for (fold, rfold, try_fold, advance_by, ...): it replaces the
                # default built on next()/next_back(), so slice-equivalence now also depends on it
                res.append((b, "%s|ITER" % b.key, "undecided",
                            "%s::%s is overridden; this rule has no contract for it: not decided" % (b.trait, b.name)))
            continue
        w = _summary(b)
        key = "%s|ITER" % b.key
        if w.aborted or not w.paths:
            res.append((b, key, "undecided", "paths not enumerable: %s" % (w.aborted or "no returning path")))
            continue
        probs, undec, facts = [], [], []
        for p in w.paths:
            if _contradictory(p.guards):
                continue
            for x, y, gs in p.subs:
                gs2 = [NONEMPTY if g == NE_SE else g for g in gs]       # S != E with S <= E is S < E
                if not _implied_with_inv(gs2, rel("Le", y, x)):
                    probs.append("the subtraction %s - %s can underflow: %s <= %s does not follow from the guards before it [%s] and "
                                 "the invariant start <= end" % (aff_show(x), aff_show(y), aff_show(y), aff_show(x),
                                                                  " & ".join(rel_show(g) for g in gs) or "none"))
        if b.name in ("size_hint", "count"):
            for p in w.paths:
                want = ("tuple", (diff, ("some", diff))) if b.name == "size_hint" else diff
                if p.ret != want:
                    (undec if p.unknown or _has_unk(p.ret) else probs).append("returns %s, the contract is %s" % (_val_show(p.ret), _val_show(want)))
            facts.append("%s = %s on all %d path(s)" % (b.name, _val_show(want), len(w.paths)))
        elif b.name == "new":
            for p in w.paths:
                r = p.ret
                ok = isinstance(r, tuple) and r[0] == "adt" and "range" in r[3] and \
                    r[2][r[3].index("range")] == ("rangeval", ZERO, A(**{"len(bv)": 1}))
                if not ok:
                    probs.append("new() builds %s, expected range 0..len(bv)" % (r,))
            facts.append("range = 0..len(bv)")
        else:
            uses_n, (idx, s1, e1), out_rule = CONTRACT[b.name]
            pos, ng = (N_IN, N_OUT) if uses_n else (NONEMPTY, EMPTY)
            seen = set()
            for p in w.paths:
                if _contradictory(p.guards):
                    continue
                for x, y, gs in p.adds:
                    if not _bounded(x, y, gs):
                        probs.append("the addition %s + %s is not bounded by the guards before it [%s]: it panics with overflow checks and "
                                     "wraps without (arguments go up to usize::MAX)"
                                     % (aff_show(x), aff_show(y), " & ".join(rel_show(g) for g in gs) or "none"))
                case = _case_of(p.guards, pos, ng, () if uses_n else (NE_SE,), () if uses_n else (EQ_SE,))
                gtxt = " & ".join(rel_show(g) for g in p.guards) or "no guard"
                if case is None:
                    if p.unknown or _has_unk(p.ret):
                        undec.append("path under [%s] not classified (%s)" % (gtxt, "; ".join(p.unknown)))
                    else:
                        probs.append("a path under [%s] returns %s without deciding `%s`" % (gtxt, _val_show(p.ret), rel_show(pos)))
                    continue
                seen.add(case)
                if case == "in":
                    want = ("some", ("get", idx))
                    if p.ret != want:
                        lost = _has_unk(p.ret) or (p.unknown and not (isinstance(p.ret, tuple) and p.ret[0] in ("some", "none", "call")))
                        (undec if lost else probs).append("when %s: returns %s, the contract is %s" % (rel_show(pos), _val_show(p.ret), _val_show(want)))
                    if s1 is not None and (p.start != s1 or p.end != e1):
                        lost = not (is_aff(p.start) and is_aff(p.end))
                        (undec if lost else probs).append("when %s: leaves range = %s..%s, the contract is %s..%s"
                                                          % (rel_show(pos), _val_show(p.start), _val_show(p.end), aff_show(s1), aff_show(e1)))

                else:
                    if p.ret != ("none",):
                        (undec if _has_unk(p.ret) or (p.unknown and not (isinstance(p.ret, tuple) and p.ret[0] in ("some", "call"))) else probs).append(
                            "when %s: returns %s, the contract is None" % (rel_show(ng), _val_show(p.ret)))
                    if out_rule in ("unchanged", "exhausted") and s1 is not None:
                        if not (is_aff(p.start) and is_aff(p.end)):
                            undec.append("range not tracked on the None path")
                        elif out_rule == "exhausted" and p.start != p.end:
                            probs.append("when %s: leaves range = %s..%s - the iterator must be exhausted (start == end), "
                                         "a slice iterator returns None from then on" % (rel_show(ng), aff_show(p.start), aff_show(p.end)))
                        elif out_rule == "unchanged" and not (p.start in (S, E) and p.end in (S, E)):
                            probs.append("when %s: changes the range to %s..%s" % (rel_show(ng), aff_show(p.start), aff_show(p.end)))
            if not probs and not undec and seen != {"in", "out"}:
                probs.append("paths cover only the case(s) %s of `%s`" % (sorted(seen), rel_show(pos)))
            facts.append("in-range: Some(get(bv, %s))%s; otherwise None%s; %d path(s)" % (
                aff_show(idx), ", range -> %s..%s" % (aff_show(s1), aff_show(e1)) if s1 is not None else "",
                {"unchanged": ", range unchanged", "exhausted": ", range exhausted", "none": ""}[out_rule], len(w.paths)))
        if probs:
            res.append((b, key, "violation", "; ".join(dict.fromkeys(probs))))
        elif undec:
            res.append((b, key, "undecided", "; ".join(dict.fromkeys(undec))))
        else:
            res.append((b, key, "pass", "; ".join(facts)))
    for must in ("next", "next_back", "size_hint", "new"):
        res.append((None, "BitIterator::%s present" % must, "pass" if must in present else "violation",
                    "defined" if must in present else "BitIterator::%s is not defined: the default (or nothing) does not match a slice iterator" % must))
    return res
