"""S4 events on storage: raw writes, mask events, aggregates, length stores (DESIGN §3 S3/S4).

Storage = the `data` field of a Bvf/Bvd (field names `data`/`length` are unique to these two
structs in the crate; this is asserted against the ADT table), or a local array / Vec / boxed
slice that flows into the `data` field of a Bvf/Bvd aggregate or is stored to `obj.data`.
"""
import re

from . import mir
from .mir import show, walk, field_path, root_of, is_call

PTR_PRODUCERS = {"get_mut", "last_mut", "first_mut", "as_mut", "index_mut", "deref_mut", "iter_mut",
                 "as_mut_slice", "get_unchecked_mut", "split_at_mut", "borrow_mut", "as_mut_ptr",
                 "align_to_mut"}
VEC_TYPES = re.compile(r"^(\[.*;.*\]|std::vec::Vec<.*>|std::boxed::Box<\[.*\].*>)$")


def assert_field_names(crate):
    """`data`/`length` must be fields of exactly Bvf and Bvd"""
    owners = {}
    for path, a in crate.adts.items():
        for v in a["variants"]:
            for f in v["fields"]:
                owners.setdefault(f["name"], set()).add(path.split("::")[-1])
    return owners.get("data") == {"Bvf", "Bvd"} and owners.get("length") == {"Bvf", "Bvd"}


def is_mut_ref_operand(b, o):
    if o["k"] not in ("copy", "move"):
        return False
    p = o["p"]
    if p["pr"]:
        return False
    t = b.local_ty(p["l"])
    return t.startswith("&") and " mut " in t[:20]


class Ev:
    """storage event"""

    def __init__(self, kind, loc, **kw):
        self.kind = kind      # 'write' | 'ptr' | 'agg' | 'lenstore' | 'datastore'
        self.loc = loc
        self.__dict__.update(kw)

    def __repr__(self):
        return "Ev(%s @bb%d.%d %s)" % (self.kind, self.loc[0], self.loc[1],
                                       {k: (show(v) if isinstance(v, tuple) and v and isinstance(v[0], str) else v)
                                        for k, v in self.__dict__.items() if k not in ("kind", "loc")})


MUT_WORDS_PARAM = re.compile(r"^&(?:'\S+ )?mut (\[.*\]|std::vec::Vec<.*>|std::boxed::Box<\[.*\].*>)$")


def helper_storage_params(b):
    """parameters of a helper introduced after the review (not in rules/census.json) through which storage words are
    handed in: `words: &mut [u64]`, `&mut Vec<I>`, `&mut Box<[u64]>`"""
    out = {}
    if mir.CENSUS is None or b.path in mir.CENSUS or b.kind == "Closure":
        return out
    for l in range(1, b.arg_count + 1):
        if MUT_WORDS_PARAM.match(re.sub(r"'\{erased\} ?", "", b.local_ty(l))):
            out[b.local_name(l)] = l
    return out


def judged_through_callers(b):
    """a helper introduced after the review that only works on storage handed to it (`&mut self`, `&mut [word]`): the
    length it must respect is known at its call sites, where its events are spliced in. A new helper that *builds* a
    vector (it contains a Bvf/Bvd aggregate or returns one built by zeros()/ones()) is self-contained and is judged on
    its own like any reviewed function."""
    if not is_new_private_helper(b):
        return False
    if b.kind == "Closure":
        return True
    for bb, i, st in b.iter_stmts():
        if st["s"] == "assign" and st["r"]["k"] == "agg" and st["r"].get("ak") == "adt" and st["r"]["adt"].split("::")[-1] in ("Bvf", "Bvd"):
            return False
    ret = mir.short_ty(b.local_ty(0))
    if mir.ty_family(ret) in ("Bvf", "Bvd") or "Bvf<" in ret or "Bvd" in ret.replace("&Bvd", ""):
        return False
    return True


def is_new_private_helper(b):
    """a non-public function (or a closure of one) that is not part of the reviewed tree's census"""
    if mir.CENSUS is None:
        return False
    if b.kind == "Closure":
        parent = b.crate.body(b.parent) if b.parent else None
        return parent is not None and is_new_private_helper(parent)
    return b.kind in ("Fn", "AssocFn") and b.path not in mir.CENSUS and not b.vis.startswith("Public")


def carriers(b):
    """locals (by id) that carry storage words: flow into a Bvf/Bvd aggregate's data or into `x.data = ..`"""
    res = set()

    def collect(e):
        for x in walk(e):
            if isinstance(x, tuple) and x and x[0] == "var" and len(x) > 2:
                if VEC_TYPES.match(b.local_ty(x[2])):
                    res.add(x[2])

    for bb, i, st in b.iter_stmts():
        if st["s"] != "assign":
            continue
        r = st["r"]
        if r["k"] == "agg" and r.get("ak") == "adt" and r["adt"].split("::")[-1] in ("Bvf", "Bvd"):
            names = r["fnames"]
            if "data" in names:
                o = r["fs"][names.index("data")]
                collect(b.e_operand(o))
                if o["k"] in ("copy", "move") and not o["p"]["pr"] and not b.is_param(o["p"]["l"]) and VEC_TYPES.match(b.local_ty(o["p"]["l"])):
                    res.add(o["p"]["l"])          # the local itself, however many definitions it has
        if st["p"]["pr"]:
            pe = b.e_place(st["p"])
            if pe[0] == "field" and pe[2] == "data":
                collect(b.e_rvalue(r))
    if returns_words(b):
        # a helper introduced after the review that builds and returns the words of a vector (`fn words_from(..) -> [I; N]`)
        collect(b.return_expr())
    # words prepared in one local and moved into a carrier (`let data = if .. { let mut d = ..; d.last_mut() ..; d } else { .. }`)
    changed = True
    while changed:
        changed = False
        for bb, i, st in b.iter_stmts():
            if st["s"] == "assign" and not st["p"]["pr"] and st["p"]["l"] in res and st["r"]["k"] == "use":
                o = st["r"]["o"]
                if o["k"] in ("copy", "move") and not o["p"]["pr"] and o["p"]["l"] not in res and not b.is_param(o["p"]["l"]) \
                        and VEC_TYPES.match(b.local_ty(o["p"]["l"])):
                    res.add(o["p"]["l"])
                    changed = True
    return res


def flows_into(b, local):
    """locals whose value is moved (possibly through other locals) into `local`"""
    res = {local}
    changed = True
    while changed:
        changed = False
        for bb, i, st in b.iter_stmts():
            if st["s"] == "assign" and not st["p"]["pr"] and st["p"]["l"] in res and st["r"]["k"] == "use":
                o = st["r"]["o"]
                if o["k"] in ("copy", "move") and not o["p"]["pr"] and o["p"]["l"] not in res:
                    res.add(o["p"]["l"])
                    changed = True
    return res


def returns_words(b):
    return b.kind in ("Fn", "AssocFn") and is_new_private_helper(b) and bool(VEC_TYPES.match(re.sub(r"'\{erased\} ?", "", b.local_ty(0))))


def _splice_returned_words(b, data, loc, out):
    """`Bvf { data: Self::words_from(src), length }` with words_from a helper introduced after the review: splice the
    helper's writes to the array it returns in front of the aggregate and return the (renamed) array as the aggregate's
    data, so that the construction is classified as if the loop were still written in place. None when not applicable."""
    e = mir.strip_casts(data)
    if not is_call(e):
        return None
    for bb, t, fn in b.iter_calls():
        h = b.crate.new_helper(fn)
        if h is None or h is b or not returns_words(h) or h.path in _INLINING or len(t["args"]) != h.arg_count:
            continue
        if b.e_call(t) != e:
            continue
        ret = h.return_expr()
        if not (ret[0] == "var" and len(ret) > 2):
            return None
        args = [b.e_operand(a) for a in t["args"]]
        mapping = {("param", h.local_name(i + 1)): args[i] for i in range(h.arg_count)}
        off_box = []

        def tr(x):
            if not isinstance(x, tuple):
                return x
            return mir.subst_expr(mir.rebase_locals(x, off_box[0], h, b), mapping)

        off_box.append(b.register_foreign((h.key, "ret", repr(sorted(mapping.items(), key=repr))), h, tr))
        _INLINING.append(h.path)
        try:
            hevs = events(h)
        finally:
            _INLINING.pop()
        for ev in hevs:
            d = {}
            for k2, v in ev.__dict__.items():
                if k2 in ("kind", "loc"):
                    continue
                if k2 == "args" or (k2 == "value" and isinstance(v, tuple) and v and isinstance(v[0], tuple)):
                    d[k2] = tuple(tr(x) for x in v)
                elif isinstance(v, tuple):
                    d[k2] = tr(v)
                else:
                    d[k2] = v
            ne = Ev(ev.kind, loc, **d)
            ne.inlined_from = h.key
            out.append(ne)
        return tr(ret)
    return None


def storage_target(b, e, carr):
    """If expression e denotes (a pointer into) storage, return (root_expr, index_expr|None, via) else None.
    root_expr is the object: ('param','self') / ('var',name,id) for `X.data...`, or the carrier var itself."""
    # unwrap pointer producers: (get_mut(S, idx) as Some).0 / last_mut(S) / as_mut(S) / index_mut(S, r)
    via = []
    idx = None
    cur = e
    # pointer obtained from a mutable iterator over storage: `for w in x.data.iter_mut()`, possibly through
    # zip / skip / take / enumerate / rev adaptors (tuple components select the zipped side)
    sel = []
    probe = cur
    while probe[0] == "field" and probe[2].isdigit():
        sel.append(int(probe[2]))
        probe = probe[1]
    if probe[0] == "iv":
        src = b.iter_source(probe[1])
        sel = list(reversed(sel))
        seen_mut = False
        for _ in range(12):
            if not (is_call(src) and src[3]):
                break
            nm = src[1]
            if nm == "zip" and len(src[3]) == 2:
                if not sel:
                    break
                k = sel.pop(0)
                src = src[3][min(k, 1)]
            elif nm == "enumerate":
                if not sel or sel.pop(0) != 1:
                    src = None
                    break
                src = src[3][0]
            elif nm in ("skip", "take", "rev", "into_iter", "step_by", "chain", "by_ref"):
                src = src[3][0]
            elif nm in ("iter_mut", "chunks_mut", "chunks_exact_mut"):
                seen_mut = True
                src = src[3][0]
            else:
                break
        if src is not None and seen_mut:
            inner = storage_target(b, src, carr) if src[0] != "iv" else None
            if inner is not None:
                return inner[0], ("iter", src), inner[2] + ["iter_mut"]
            if src[0] == "field" and src[2] == "data":
                return src[1], ("iter", src), ["iter_mut"]
        return None
    for _ in range(12):
        if cur[0] == "field" and cur[2] == "0" and cur[1][0] == "variant" and cur[1][2] == "Some":
            cur = cur[1][1]
            continue
        if cur[0] == "call" and cur[1] in PTR_PRODUCERS and cur[3]:
            via.append(cur[1])
            if cur[1] in ("get_mut", "index_mut", "get_unchecked_mut") and len(cur[3]) > 1 and idx is None:
                idx = cur[3][1]
            cur = cur[3][0]
            continue
        if cur[0] == "index":
            if idx is None:
                idx = cur[2]
            cur = cur[1]
            continue
        if cur[0] == "subslice":
            cur = cur[1]
            continue
        break
    if cur[0] == "field" and cur[2] == "data":
        return cur[1], idx, via
    if cur[0] == "var" and len(cur) > 2 and cur[2] in carr:
        return cur, idx, via
    if cur[0] == "param" and cur[1] in helper_storage_params(b):
        return cur, idx, via
    # a carrier with a single definition is rendered as its initialiser: `data.last_mut()` reads `last_mut(collect(..))`
    if cur[0] == "call" and carr:
        for c in carr:
            if len(b.full_defs(c)) == 1 and b.init_expr(c) == cur:
                return ("var", b.local_name(c), c), idx, via
    return None


def events(b):
    """list of storage events of body b (reachable blocks only)"""
    carr = carriers(b)
    out = []
    for bb, i, st in b.iter_stmts():
        if st["s"] != "assign":
            continue
        p, r = st["p"], st["r"]
        pe = b.e_place(p)
        # aggregate construction
        if r["k"] == "agg" and r.get("ak") == "adt" and r["adt"].split("::")[-1] in ("Bvf", "Bvd"):
            names = r["fnames"]
            fs = [b.e_operand(o) for o in r["fs"]]
            dest = pe if p["pr"] else ("var", b.local_name(p["l"]), p["l"])
            spliced = _splice_returned_words(b, fs[names.index("data")], (bb, i), out)
            if spliced is not None:
                fs[names.index("data")] = spliced
            dop = r["fs"][names.index("data")]
            dloc = dop["p"]["l"] if dop["k"] in ("copy", "move") and not dop["p"]["pr"] else None
            out.append(Ev("agg", (bb, i), data_local=dloc, adt=r["adt"].split("::")[-1], data=fs[names.index("data")],
                          length=fs[names.index("length")], dest=dest))
            continue
        if not p["pr"]:
            continue
        if pe[0] == "field" and pe[2] == "length":
            out.append(Ev("lenstore", (bb, i), obj=pe[1], value=b.e_rvalue(r)))
            continue
        if pe[0] == "field" and pe[2] == "data":
            out.append(Ev("datastore", (bb, i), obj=pe[1], value=b.e_rvalue(r)))
            continue
        tgt = storage_target(b, pe, carr)
        if tgt is not None:
            out.append(Ev("write", (bb, i), obj=tgt[0], index=tgt[1], via=tgt[2], target=pe,
                          value=b.e_rvalue(r), how="assign"))
    for bb, t, fn in b.iter_calls():
        loc = b.call_loc(bb)
        name = fn["name"] if fn else "<indirect>"
        args = [b.e_operand(a) for a in t["args"]]
        if _inline_helper(b, t, fn, args, carr, loc, out):
            continue
        for k, a in enumerate(t["args"]):
            if not is_mut_ref_operand(b, a):
                continue
            tgt = storage_target(b, args[k], carr)
            if tgt is None:
                continue
            if name in PTR_PRODUCERS or name in ("into_iter", "iter_mut", "enumerate", "rev", "next"):
                out.append(Ev("ptr", loc, obj=tgt[0], index=tgt[1], via=tgt[2] + [name], call=b.e_call(t)))
            else:
                out.append(Ev("write", loc, obj=tgt[0], index=tgt[1], via=tgt[2], target=args[k],
                              value=tuple(args[:k] + args[k + 1:]), how="call:" + name, fn=fn, argpos=k))
        # whole-object `&mut` receivers: calls of (possibly) mutating methods on a vector
        for k, a in enumerate(t["args"]):
            if not is_mut_ref_operand(b, a):
                continue
            fam = mir.ty_family(b.local_ty(a["p"]["l"]))
            if fam in ("Bvf", "Bvd", "Bv"):
                out.append(Ev("mcall", loc, obj=args[k], name=name, fn=fn, args=tuple(args), argpos=k, fam=fam))
    out.sort(key=lambda e: e.loc)
    return out


_INLINING = []


def _inline_helper(b, t, fn, args, carr, loc, out):
    """A call that hands storage (`&mut self`, `&mut self.data`, a carrier) to a helper that did not exist on the
    reviewed tree: splice the helper's own storage events in at the call site, with its parameters replaced by the
    actual arguments. Returns True when the call was expanded."""
    h = b.crate.new_helper(fn)
    if h is None or h is b or h.path in _INLINING or len(_INLINING) > 3 or len(args) != h.arg_count:
        return False
    objmap = {}
    for k, a in enumerate(t["args"]):
        if not is_mut_ref_operand(b, a):
            continue
        pname = ("param", h.local_name(k + 1))
        fam = mir.ty_family(b.local_ty(a["p"]["l"]))
        if fam in ("Bvf", "Bvd"):
            objmap[pname] = args[k]
            continue
        tgt = storage_target(b, args[k], carr)
        if tgt is not None:
            if tgt[1] is not None:
                return False        # a sub-slice is handed over: indices would need re-basing
            objmap[pname] = tgt[0]
    if not objmap:
        return False
    _INLINING.append(h.path)
    try:
        hevs = events(h)
        from . import mask as _mask
        hmasks = _mask.find_mask_events(h, hevs)
    finally:
        _INLINING.pop()
    mapping = {("param", h.local_name(i + 1)): args[i] for i in range(h.arg_count)}
    # the helper's own locals and loop counters get ids in a range reserved for it in this body, so that rules
    # asking the body about them (names, types, iterator sources) are answered from the helper
    off_box = []

    def tr(x):
        if not isinstance(x, tuple):
            return x
        return mir.subst_expr(mir.rebase_locals(x, off_box[0], h, b), mapping)

    off_box.append(b.register_foreign((h.key, repr(sorted(mapping.items(), key=repr))), h, tr))

    for e in hevs:
        d = {}
        for k2, v in e.__dict__.items():
            if k2 in ("kind", "loc"):
                continue
            if k2 == "obj":
                d[k2] = objmap.get(v, tr(v))
            elif k2 == "args" or (k2 == "value" and isinstance(v, tuple) and v and isinstance(v[0], tuple)):
                d[k2] = tuple(tr(x) for x in v)
            elif isinstance(v, tuple):
                d[k2] = tr(v)
            else:
                d[k2] = v
        ne = Ev(e.kind, loc, **d)
        ne.inlined_from = h.key
        out.append(ne)
    for m in hmasks:
        out.append(Ev("maskimport", loc, obj=objmap.get(m.obj, tr(m.obj)), form=m.form, L=tr(m.L) if m.L is not None else None,
                      detail="%s [in helper %s]" % (m.detail, h.name)))
    return True


def is_zero_data(e):
    """expression of an all-zero storage initialiser"""
    e = mir.strip_casts(e)
    if e[0] == "repeat":
        v = e[1]
        return v[1] == "ZERO" if v[0] == "assoc" else v == ("int", 0)
    if is_call(e, "into_boxed_slice") and e[3]:
        return is_zero_data(e[3][0])
    if is_call(e, "collect") and e[3]:
        inner = e[3][0]
        if is_call(inner, "take") and is_call(inner[3][0], "repeat"):
            v = inner[3][0][3][0]
            return v == ("int", 0)
    if is_call(e, "from_elem") and len(e[3]) == 2:
        # vec![0; n] (normally already rewritten by mir.norm_expr)
        v = e[3][0]
        return v == ("int", 0) or (v[0] == "assoc" and v[1] == "ZERO")
    if e[0] == "phi":
        return all(is_zero_data(x) for x in e[2])
    return False


def subst_closure(crate, e):
    """('closure', path, captured) -> return expression of the closure body with its captured
    variables (`_1.k`) replaced by the captured expressions of the creation site; None if unknown"""
    cb = crate.body(e[1])
    if cb is None:
        return None
    caps = e[2]

    def sub(x):
        if not isinstance(x, tuple):
            return x
        if x and x[0] == "field" and x[1] == ("param", cb.local_name(1)) and x[2].isdigit() and int(x[2]) < len(caps):
            return caps[int(x[2])]
        return tuple(sub(y) if isinstance(y, tuple) else y for y in x)

    return sub(cb.return_expr()), cb
