"""S4 events on storage: raw writes, mask events, aggregates, length stores (DESIGN §3 S3/S4).

Storage = the `data` field of a Bvf/Bvd (field names `data`/`length` are unique to these two
structs in the crate; this is asserted against the ADT table), or a local array / Vec / boxed
slice that flows into the `data` field of a Bvf/Bvd aggregate or is stored to `obj.data`.
"""
import re

from . import mir
from .mir import show, walk, field_path, root_of, is_call

PTR_PRODUCERS = {"get_mut", "last_mut", "first_mut", "as_mut", "index_mut", "deref_mut", "iter_mut",
                 "as_mut_slice", "get_unchecked_mut", "split_at_mut", "borrow_mut", "as_mut_ptr",
                 "align_to_mut"}
VEC_TYPES = re.compile(r"^(\[.*;.*\]|std::vec::Vec<.*>|std::boxed::Box<\[.*\].*>)$")


def assert_field_names(crate):
    """`data`/`length` must be fields of exactly Bvf and Bvd"""
    owners = {}
    for path, a in crate.adts.items():
        for v in a["variants"]:
            for f in v["fields"]:
                owners.setdefault(f["name"], set()).add(path.split("::")[-1])
    return owners.get("data") == {"Bvf", "Bvd"} and owners.get("length") == {"Bvf", "Bvd"}


def is_mut_ref_operand(b, o):
    if o["k"] not in ("copy", "move"):
        return False
    p = o["p"]
    if p["pr"]:
        return False
    t = b.local_ty(p["l"])
    return t.startswith("&") and " mut " in t[:20]


class Ev:
    """storage event"""

    def __init__(self, kind, loc, **kw):
        self.kind = kind      # 'write' | 'ptr' | 'agg' | 'lenstore' | 'datastore'
        self.loc = loc
        self.__dict__.update(kw)

    def __repr__(self):
        return "Ev(%s @bb%d.%d %s)" % (self.kind, self.loc[0], self.loc[1],
                                       {k: (show(v) if isinstance(v, tuple) and v and isinstance(v[0], str) else v)
                                        for k, v in self.__dict__.items() if k not in ("kind", "loc")})


def carriers(b):
    """locals (by id) that carry storage words: flow into a Bvf/Bvd aggregate's data or into `x.data = ..`"""
    res = set()

    def collect(e):
        for x in walk(e):
            if isinstance(x, tuple) and x and x[0] == "var" and len(x) > 2:
                if VEC_TYPES.match(b.local_ty(x[2])):
                    res.add(x[2])

    for bb, i, st in b.iter_stmts():
        if st["s"] != "assign":
            continue
        r = st["r"]
        if r["k"] == "agg" and r.get("ak") == "adt" and r["adt"].split("::")[-1] in ("Bvf", "Bvd"):
            names = r["fnames"]
            if "data" in names:
                collect(b.e_operand(r["fs"][names.index("data")]))
        if st["p"]["pr"]:
            pe = b.e_place(st["p"])
            if pe[0] == "field" and pe[2] == "data":
                collect(b.e_rvalue(r))
    return res


def storage_target(b, e, carr):
    """If expression e denotes (a pointer into) storage, return (root_expr, index_expr|None, via) else None.
    root_expr is the object: ('param','self') / ('var',name,id) for `X.data...`, or the carrier var itself."""
    # unwrap pointer producers: (get_mut(S, idx) as Some).0 / last_mut(S) / as_mut(S) / index_mut(S, r)
    via = []
    idx = None
    cur = e
    # pointer obtained from a mutable iterator over storage: `for w in x.data.iter_mut()`, possibly through
    # zip / skip / take / enumerate / rev adaptors (tuple components select the zipped side)
    sel = []
    probe = cur
    while probe[0] == "field" and probe[2].isdigit():
        sel.append(int(probe[2]))
        probe = probe[1]
    if probe[0] == "iv":
        src = b.iter_source(probe[1])
        sel = list(reversed(sel))
        seen_mut = False
        for _ in range(12):
            if not (is_call(src) and src[3]):
                break
            nm = src[1]
            if nm == "zip" and len(src[3]) == 2:
                if not sel:
                    break
                k = sel.pop(0)
                src = src[3][min(k, 1)]
            elif nm == "enumerate":
                if not sel or sel.pop(0) != 1:
                    src = None
                    break
                src = src[3][0]
            elif nm in ("skip", "take", "rev", "into_iter", "step_by", "chain", "by_ref"):
                src = src[3][0]
            elif nm in ("iter_mut", "chunks_mut", "chunks_exact_mut"):
                seen_mut = True
                src = src[3][0]
            else:
                break
        if src is not None and seen_mut:
            inner = storage_target(b, src, carr) if src[0] != "iv" else None
            if inner is not None:
                return inner[0], ("iter", src), inner[2] + ["iter_mut"]
            if src[0] == "field" and src[2] == "data":
                return src[1], ("iter", src), ["iter_mut"]
        return None
    for _ in range(12):
        if cur[0] == "field" and cur[2] == "0" and cur[1][0] == "variant" and cur[1][2] == "Some":
            cur = cur[1][1]
            continue
        if cur[0] == "call" and cur[1] in PTR_PRODUCERS and cur[3]:
            via.append(cur[1])
            if cur[1] in ("get_mut", "index_mut", "get_unchecked_mut") and len(cur[3]) > 1 and idx is None:
                idx = cur[3][1]
            cur = cur[3][0]
            continue
        if cur[0] == "index":
            if idx is None:
                idx = cur[2]
            cur = cur[1]
            continue
        if cur[0] == "subslice":
            cur = cur[1]
            continue
        break
    if cur[0] == "field" and cur[2] == "data":
        return cur[1], idx, via
    if cur[0] == "var" and len(cur) > 2 and cur[2] in carr:
        return cur, idx, via
    return None


def events(b):
    """list of storage events of body b (reachable blocks only)"""
    carr = carriers(b)
    out = []
    for bb, i, st in b.iter_stmts():
        if st["s"] != "assign":
            continue
        p, r = st["p"], st["r"]
        pe = b.e_place(p)
        # aggregate construction
        if r["k"] == "agg" and r.get("ak") == "adt" and r["adt"].split("::")[-1] in ("Bvf", "Bvd"):
            names = r["fnames"]
            fs = [b.e_operand(o) for o in r["fs"]]
            dest = pe if p["pr"] else ("var", b.local_name(p["l"]), p["l"])
            out.append(Ev("agg", (bb, i), adt=r["adt"].split("::")[-1], data=fs[names.index("data")],
                          length=fs[names.index("length")], dest=dest))
            continue
        if not p["pr"]:
            continue
        if pe[0] == "field" and pe[2] == "length":
            out.append(Ev("lenstore", (bb, i), obj=pe[1], value=b.e_rvalue(r)))
            continue
        if pe[0] == "field" and pe[2] == "data":
            out.append(Ev("datastore", (bb, i), obj=pe[1], value=b.e_rvalue(r)))
            continue
        tgt = storage_target(b, pe, carr)
        if tgt is not None:
            out.append(Ev("write", (bb, i), obj=tgt[0], index=tgt[1], via=tgt[2], target=pe,
                          value=b.e_rvalue(r), how="assign"))
    for bb, t, fn in b.iter_calls():
        loc = b.call_loc(bb)
        name = fn["name"] if fn else "<indirect>"
        args = [b.e_operand(a) for a in t["args"]]
        for k, a in enumerate(t["args"]):
            if not is_mut_ref_operand(b, a):
                continue
            tgt = storage_target(b, args[k], carr)
            if tgt is None:
                continue
            if name in PTR_PRODUCERS or name in ("into_iter", "iter_mut", "enumerate", "rev", "next"):
                out.append(Ev("ptr", loc, obj=tgt[0], index=tgt[1], via=tgt[2] + [name], call=b.e_call(t)))
            else:
                out.append(Ev("write", loc, obj=tgt[0], index=tgt[1], via=tgt[2], target=args[k],
                              value=tuple(args[:k] + args[k + 1:]), how="call:" + name, fn=fn, argpos=k))
        # whole-object `&mut` receivers: calls of (possibly) mutating methods on a vector
        for k, a in enumerate(t["args"]):
            if not is_mut_ref_operand(b, a):
                continue
            fam = mir.ty_family(b.local_ty(a["p"]["l"]))
            if fam in ("Bvf", "Bvd", "Bv"):
                out.append(Ev("mcall", loc, obj=args[k], name=name, fn=fn, args=tuple(args), argpos=k, fam=fam))
    out.sort(key=lambda e: e.loc)
    return out


def is_zero_data(e):
    """expression of an all-zero storage initialiser"""
    e = mir.strip_casts(e)
    if e[0] == "repeat":
        v = e[1]
        return v == ("assoc", "ZERO", v[2]) if v[0] == "assoc" else v == ("int", 0)
    if is_call(e, "into_boxed_slice") and e[3]:
        return is_zero_data(e[3][0])
    if is_call(e, "collect") and e[3]:
        inner = e[3][0]
        if is_call(inner, "take") and is_call(inner[3][0], "repeat"):
            v = inner[3][0][3][0]
            return v == ("int", 0)
    if e[0] == "phi":
        return all(is_zero_data(x) for x in e[2])
    return False


def subst_closure(crate, e):
    """('closure', path, captured) -> return expression of the closure body with its captured
    variables (`_1.k`) replaced by the captured expressions of the creation site; None if unknown"""
    cb = crate.body(e[1])
    if cb is None:
        return None
    caps = e[2]

    def sub(x):
        if not isinstance(x, tuple):
            return x
        if x and x[0] == "field" and x[1] == ("param", cb.local_name(1)) and x[2].isdigit() and int(x[2]) < len(caps):
            return caps[int(x[2])]
        return tuple(sub(y) if isinstance(y, tuple) else y for y in x)

    return sub(cb.return_expr()), cb
