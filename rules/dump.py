"""Debug helper: print the pruned CFG of matching bodies with reconstructed expressions.
usage: python3 -m rules.dump <substring of key or path> [config] [repo]
"""
import sys

from . import extract, mir


def dump_body(b, out=sys.stdout, with_idx=True):
    w = out.write
    w("=== %s\n    key=%s  %s  vis=%s\n" % (b.path, b.key, b.where(), b.vis))
    for bb in sorted(b.reachable_blocks()):
        blk = b.blocks[bb]
        w("  bb%d:\n" % bb)
        for i, st in enumerate(blk["st"]):
            if st["s"] != "assign":
                w("    %s\n" % st)
                continue
            p = st["p"]
            interesting = p["pr"] or b.locals[p["l"]]["user"] or p["l"] == 0 or not b.inlinable(p["l"])
            if interesting:
                w("    %s%s = %s\n" % ("[%d] " % i if with_idx else "", mir.show(b.e_place(p)) if p["pr"] else b.local_name(p["l"]),
                                      mir.show(b.e_rvalue(st["r"]))))
        t = blk["term"]
        k = t["t"]
        if k == "call":
            d = t["d"]
            w("    CALL %s := %s -> %s\n" % (mir.show(b.e_place(d)) if d["pr"] else b.local_name(d["l"]),
                                            mir.show(b.e_call(t)), t.get("to", "!")))
        elif k == "switch":
            e, m = b.switch_cond(bb)
            w("    SWITCH %s %s\n" % (mir.show(e), {k2: v for k2, v in m.items() if k2 in b.succ[bb]}))
        elif k == "assert":
            w("    ASSERT %s (%s == %s) -> %d\n" % (t["kind"], mir.show(b.e_operand(t["c"])), t["exp"], t["to"]))
        else:
            w("    %s -> %s\n" % (k.upper(), b.succ[bb]))


def main():
    pat = sys.argv[1]
    config = sys.argv[2] if len(sys.argv) > 2 else "dbg"
    repo = sys.argv[3] if len(sys.argv) > 3 else "/repo"
    c = mir.Crate(extract.load(repo, config), config)
    n = 0
    for b in c.bodies:
        if pat in b.key or pat in b.path:
            dump_body(b)
            n += 1
            if n >= 6:
                break
    print("matched", n)


if __name__ == "__main__":
    main()
