"""REV (swap/reverse parity), comparison-kernel shape and sibling agreement (C09), HASH taint (C10)."""
from . import mir, storage
from .mir import show, is_call, is_bin, walk

CMP_METHODS = {"eq": "PartialEq", "ne": "PartialEq", "partial_cmp": "PartialOrd", "cmp": "Ord"}
FAMS = ("Bvf", "Bvd", "Bv")


def cmp_bodies(crate):
    return [b for b in crate.bodies if b.kind != "Closure" and b.trait in ("PartialEq", "PartialOrd", "Ord")
            and b.self_family in FAMS and b.name in CMP_METHODS]


def _strip_payload(e):
    if e[0] == "field" and e[2] == "0" and e[1][0] == "variant":
        return e[1][1], e[1][2]
    return e, None


def _payload_roots(e):
    """the set of vectors whose variant payload e may be: (x as V).0 -> {x}; a phi of payloads -> union"""
    if e[0] == "phi":
        out = set()
        for a in e[2]:
            r = _payload_roots(a)
            if not r:
                return set()
            out |= r
        return out
    if e[0] == "field" and e[2] == "0" and e[1][0] == "variant":
        return {e[1][1]}
    return set()


def rev_parity(crate):
    """delegating comparisons: operands swapped <=> result reversed (eq: swap allowed, never negated)"""
    res = []
    for b in cmp_bodies(crate):
        if b.loops():
            continue  # kernel
        self_p, other_p = ("param", b.local_name(1)), ("param", b.local_name(2))
        calls = []
        for bb, t, fn in b.iter_calls():
            if fn and fn["name"] in ("eq", "ne", "partial_cmp", "cmp") and len(t["args"]) == 2:
                calls.append((bb, t, fn, b.e_call(t)))
        adaptors = [fn["name"] for bb, t, fn in b.iter_calls()
                    if fn and fn["name"] in ("all", "any", "find", "find_map", "map", "for_each", "fold", "try_fold", "position", "zip", "eq", "cmp")
                    and any(isinstance(a, tuple) and a[:1] == ("closure",) for a in b.e_call(t)[3])]
        if not calls and adaptors:
            # word-wise comparison written with iterator adaptors and closures instead of an index loop: the per-word
            # kernel shape is not extracted from closures
            res.append((b, b.key, "undecided", "comparison expressed through iterator adaptors (%s): kernel shape not decided" % ", ".join(sorted(set(adaptors)))))
            continue
        helpers = sorted({crate.new_helper(fn).name for bb, t, fn in b.iter_calls() if crate.new_helper(fn) is not None})
        if not calls and helpers:
            # the comparison was handed to helper(s) introduced after the review (`eq_words(&self.data, &other.data)`):
            # operand order / reversal inside them is not extracted
            res.append((b, b.key, "undecided", "comparison delegated to the helper(s) %s introduced after the review: not decided" % ", ".join(helpers)))
            continue
        if not calls:
            res.append((b, b.key, "violation", "comparison without a loop delegates to no comparison"))
            continue
        ret = b.return_expr()
        alts = ret[2] if ret[0] == "phi" else (ret,)
        for bb, t, fn, e in calls:
            a0, v0 = _strip_payload(b.e_operand(t["args"][0]))
            a1, v1 = _strip_payload(b.e_operand(t["args"][1]))
            roots0, roots1 = _payload_roots(b.e_operand(t["args"][0])), _payload_roots(b.e_operand(t["args"][1]))
            if a0 == self_p and a1 == other_p:
                swapped = False
            elif a0 == other_p and a1 == self_p:
                swapped = True
            elif (fn["name"] in ("eq", "ne") and b.name in ("eq", "ne") and roots0 and roots1
                  and roots0 | roots1 == {self_p, other_p} and roots0 == roots1):
                # merged arms `(Fixed(f), Dynamic(d)) | (Dynamic(d), Fixed(f)) => d.eq(f)`: each operand is a payload of self
                # in one alternative and of other in the other one; equality is symmetric, so the pairing does not matter
                res.append((b, "%s|%s(merged arms)" % (b.key, fn["name"]), "pass",
                            "equality delegated on the payloads of self and other (merged match arms; symmetric)"))
                continue
            else:
                # comparison of raw word slices / word iterators instead of the vectors: lexicographic order (or slice
                # equality) is the numeric one only when both sides have the same number of words. Equal, explicit word
                # counts (`split_at(.., common).0` on both sides, `[..n]` with the same n): the surplus-word handling around
                # it is not extracted -> no verdict. Different counts: the shorter operand is not zero-extended.
                la, lb = _slice_count(a0), _slice_count(a1)
                if la is not None and lb is not None and la == lb:
                    res.append((b, "%s|%s" % (b.key, show(e)[:60]), "undecided",
                                "compares equally long word slices (%s words each); the handling of the surplus words is not extracted" % show(la)[:60]))
                    continue
                res.append((b, "%s|%s" % (b.key, show(e)[:60]), "violation",
                            "delegates to %s(%s, %s): operands are not (self, other) in either order%s"
                            % (fn["name"], show(a0), show(a1),
                               "" if la is None and lb is None else " - word slices of different lengths compare lexicographically, not numerically")))
                continue
            # how is the result used?
            reversed_ = False
            negated = False
            used = False
            for alt in alts:
                for x in walk(alt):
                    if x == e or (isinstance(x, tuple) and x[:2] == ("bin", "Eq") and x[2:] == e[3]) \
                            or (isinstance(x, tuple) and x and x[0] == "bin" and tuple(x[2:]) == tuple(e[3])):
                        used = True
                if is_call(alt, "map") and len(alt[3]) == 2 and _same_call(alt[3][0], e) and alt[3][1][0] == "closure":
                    sc = storage.subst_closure(crate, alt[3][1])
                    if sc and is_call(sc[0], "reverse"):
                        reversed_ = True
                        used = True
                if is_call(alt, "reverse") and any(_same_call(x, e) for x in walk(alt)):
                    reversed_ = True
                    used = True
                if alt[0] == "un" and alt[1] == "Not":
                    negated = True
            kind = fn["name"]
            key = "%s|%s(%s)" % (b.key, kind, "other, self" if swapped else "self, other")
            if kind in ("eq", "ne") or b.name in ("eq", "ne"):
                if negated and kind == b.name:
                    res.append((b, key, "violation", "equality delegates to %s but negates the result" % kind))
                else:
                    res.append((b, key, "pass", "equality delegated%s; symmetric, so no reversal needed"
                                % (" with swapped operands" if swapped else "")))
            else:
                if swapped != reversed_:
                    res.append((b, key, "violation",
                                "ordering delegates with operands %s but the result is %s"
                                % ("swapped" if swapped else "in order", "reversed" if reversed_ else "not reversed")))
                else:
                    res.append((b, key, "pass", "ordering delegated%s" % (" with swapped operands and reversed result" if swapped else "")))
    return res


def _slice_count(e):
    """number of words of a slice / slice-iterator operand when it is explicit: x[..n] -> n, split_at(x, n).0 -> n"""
    for _ in range(6):
        if is_call(e, ("rev", "iter", "into_iter", "copied", "cloned", "as_ref", "deref", "borrow")) and len(e[3]) == 1:
            e = e[3][0]
            continue
        break
    if e[0] == "field" and e[2] == "0" and is_call(e[1], "split_at") and len(e[1][3]) == 2:
        return e[1][3][1]
    if is_call(e, "index") and len(e[3]) == 2 and e[3][1][0] == "agg" and e[3][1][1] == "RangeTo" and e[3][1][3]:
        return e[3][1][3][0]
    if is_call(e, "index") and len(e[3]) == 2 and e[3][1][0] == "agg" and e[3][1][1] == "Range" and len(e[3][1][3]) == 2 \
            and e[3][1][3][0] == ("int", 0):
        return e[3][1][3][1]
    return None


def _same_call(a, b):
    if a == b:
        return True
    # trait-operator calls are normalised to bin nodes in return expressions
    if isinstance(a, tuple) and isinstance(b, tuple) and a and b and a[0] == "bin" and b[0] == "call":
        return tuple(a[2:]) == tuple(b[3])
    return False


def kernel_shape(crate):
    """comparison kernels: word loop over 0..max(A, B) (reversed for orderings), zero default for missing words,
    same accessors in the eq and the ordering kernel of one operand pairing"""
    res = []
    kernels = {}
    for b in cmp_bodies(crate):
        if not b.loops():
            continue
        info = _kernel_info(b)
        pair = (b.self_family, mir.ty_family(b.trait_args[0]) if b.trait_args else b.self_family)
        kind = "eq" if b.name in ("eq", "ne") else "ord"
        kernels.setdefault(pair, {})[kind] = (b, info)
        probs = []
        if info["range"] is None:
            probs.append("no word loop over a 0..n range found")
        else:
            rng = info["range"]
            if rng[3][0] != ("int", 0):
                probs.append("word loop does not start at 0")
            if not is_call(rng[3][1], "max"):
                probs.append("word loop end %s is not max(words(self), words(other)): a longer operand's high words would be ignored"
                             % show(rng[3][1]))
            elif info["cmp"] is not None:
                # each accessor's word count must be one of the max() arguments, in the accessor's own word type
                for side in info["cmp"]:
                    acc = mir.strip_casts(side)
                    if is_call(acc, "unwrap_or"):
                        acc = acc[3][0]
                    okb = False
                    for arg in rng[3][1][3]:
                        if is_call(acc, "get_int") and is_call(arg, "int_len") and arg[3] == (acc[3][0],) \
                                and (len(arg) < 5 or len(acc) < 5 or arg[4][-1:] == acc[4][-1:]):
                            okb = True
                        if is_call(acc, "get") and is_call(arg, "len") and (arg[3] == (acc[3][0],) or (
                                acc[3][0][0] == "field" and arg[3] == (acc[3][0][1],))):
                            okb = True   # len(x.data) words, or len(x) bits >= words (over-approximation)
                    if not okb:
                        probs.append("loop bound %s does not cover the word count of accessor `%s` (in its own word type): "
                                     "high words of that operand would be ignored" % (show(rng[3][1]), show(acc)[:60]))
        if kind == "ord" and not info["rev"]:
            probs.append("ordering kernel iterates least-significant word first (missing .rev())")
        if kind == "eq" and info["rev"]:
            pass
        if info["cmp"] is None:
            probs.append("no word comparison found in the loop")
        else:
            for side in info["cmp"]:
                if not _zero_default(side):
                    probs.append("word accessor `%s` has no zero default for a missing word" % show(side)[:80])
            a, c = info["cmp"]
            ra, rc = _acc_root(a), _acc_root(c)
            if ra != ("param", b.local_name(1)) or rc != ("param", b.local_name(2)):
                probs.append("compares (%s, %s) instead of (self word, other word)" % (show(ra), show(rc)))
            if any(_acc_index(s) != info["iv"] for s in (a, c)):
                probs.append("the two accessors are not indexed by the loop variable")
        if kind == "ord":
            if not info["ret_equal_at_end"]:
                probs.append("does not return Equal after the loop")
            if not info["ret_ord"]:
                probs.append("does not return the first non-Equal word ordering")
        else:
            if not info["eq_ok"]:
                probs.append("does not return false on the first differing word / true at the end")
        if probs:
            # the kernel rule describes ONE algorithm: a single word loop over 0..max(..) comparing zero-extended words. A body
            # that also scans words elsewhere (a surplus-word pre-check through any()/all()/find(), a second loop, a helper
            # introduced after the review) implements another algorithm, which this rule cannot judge
            extra = sorted({fn["name"] for bb, t, fn in b.iter_calls() if fn and fn["name"] in
                            ("all", "any", "find", "position", "rposition", "fold", "try_fold", "iter", "split_at", "chain", "zip", "skip_while", "take_while")})
            helpers = sorted({crate.new_helper(fn).name for bb, t, fn in b.iter_calls() if crate.new_helper(fn) is not None})
            if extra or helpers or len(b.loops()) > 1:
                res.append((b, b.key, "undecided", "not the single-loop kernel this rule describes (%s): %s"
                            % (", ".join(extra + helpers) or "%d loops" % len(b.loops()), "; ".join(probs)[:200])))
                kernels[pair].pop(kind, None)
                continue
        res.append((b, b.key, "violation" if probs else "pass",
                    "; ".join(probs) if probs else "loop %s%s, words %s vs %s"
                    % (show(info["range"]), " reversed" if info["rev"] else "", show(info["cmp"][0])[:50], show(info["cmp"][1])[:50])))
    # sibling agreement
    for pair, d in kernels.items():
        if "eq" in d and "ord" in d:
            be, ie = d["eq"]
            bo, io = d["ord"]
            key = "SIB eq/ord %s x %s" % pair
            diffs = []
            if ie["range"] != io["range"]:
                diffs.append("word ranges differ: %s vs %s" % (show(ie["range"]), show(io["range"])))
            if ie["cmp"] and io["cmp"] and tuple(_norm_iv(x) for x in ie["cmp"]) != tuple(_norm_iv(x) for x in io["cmp"]):
                diffs.append("word accessors differ: (%s) vs (%s)" % (", ".join(show(x) for x in ie["cmp"]), ", ".join(show(x) for x in io["cmp"])))
            res.append((be, key, "violation" if diffs else "pass",
                        "; ".join(diffs) if diffs else "eq and ordering kernels read the same words with the same zero extension"))
    return res


def _norm_iv(e):
    if not isinstance(e, tuple):
        return e
    if e and e[0] == "iv":
        return ("iv", 0)
    return tuple(_norm_iv(x) if isinstance(x, tuple) else x for x in e)


def _zero_default(e):
    e = mir.strip_casts(e)
    if is_call(e, "unwrap_or") and len(e[3]) == 2:
        d = e[3][1]
        return d == ("int", 0) or (d[0] == "assoc" and d[1] == "ZERO") or show(d) in ("0", "ZERO")
    return False


def _acc_root(e):
    e = mir.strip_casts(e)
    if is_call(e, "unwrap_or"):
        e = e[3][0]
    if is_call(e, ("get_int", "get")) and e[3]:
        return mir.root_of(e[3][0])
    return None


def _acc_index(e):
    e = mir.strip_casts(e)
    if is_call(e, "unwrap_or"):
        e = e[3][0]
    if is_call(e, ("get_int", "get")) and len(e[3]) == 2:
        return e[3][1]
    return None


def _kernel_info(b):
    info = dict(range=None, rev=False, cmp=None, iv=None, ret_equal_at_end=False, ret_ord=False, eq_ok=False)
    for l, d in enumerate(b.locals):
        pass
    # iterator local
    for bb, t, fn in b.iter_calls():
        if fn and fn["name"] in ("next", "next_back"):
            a = b.e_operand(t["args"][0])
            if a[0] == "var":
                src = b.iter_source(a[2])
                rev = False
                while is_call(src, ("rev", "into_iter")) and src[3]:
                    if src[1] == "rev":
                        rev = not rev
                    src = src[3][0]
                if fn["name"] == "next_back":
                    rev = not rev
                if src[0] == "agg" and src[1].startswith("Range"):
                    info["range"] = src
                    info["rev"] = rev
                    info["iv"] = ("iv", a[2])
    for bb, t, fn in b.iter_calls():
        if fn and fn["name"] in ("cmp", "ne", "eq", "partial_cmp") and len(t["args"]) == 2:
            a0, a1 = b.e_operand(t["args"][0]), b.e_operand(t["args"][1])
            if mir.contains(a0, lambda x: x == info["iv"]):
                info["cmp"] = (a0, a1)
                info["cmp_call"] = b.e_call(t)
                info["cmp_name"] = fn["name"]
    # word comparison may also be a primitive BinOp (u64 != u64)
    if info["cmp"] is None:
        for sb, t in b.iter_switches():
            e, m = b.switch_cond(sb)
            while e[0] == "un" and e[1] == "Not":
                e = e[2]
            if is_bin(e, ("Ne", "Eq")) and mir.contains(e, lambda x: x == info["iv"]):
                info["cmp"] = (e[2], e[3])
                info["cmp_call"] = e
                info["cmp_name"] = e[1].lower()
    ret = b.return_expr()
    alts = ret[2] if ret[0] == "phi" else (ret,)
    for a in alts:
        s = show(a)
        if s.endswith("Ordering::Equal") or s.endswith("Ordering::Equal}"):
            info["ret_equal_at_end"] = True
        if info.get("cmp_call") is not None and any(x == info["cmp_call"] for x in walk(a)):
            info["ret_ord"] = True
    if b.name in ("eq", "ne"):
        vals = sorted(show(a) for a in alts)
        info["eq_ok"] = vals == ["false", "true"]
        # `false` must be returned on the differing edge: the switch on the word comparison leads to false
    return info


# --------------------------------------------------------------------------------------------
# HASH
# --------------------------------------------------------------------------------------------
LEN_LEAVES = ("length",)
LEN_CALLS = ("len", "int_len", "capacity")   # applied to a vector; capacity_from_*_len are pure functions of their argument
DATA_CALLS = ("get", "get_int", "leading_zeros", "leading_ones", "trailing_zeros", "trailing_ones",
              "significant_bits", "is_zero", "to_vec", "iter")


def _taint(e):
    """'len' if the expression mentions the length anywhere outside the length-cancelling form
    `len - leading_zeros(x)` (= significant bits): such a value differs between equal vectors of different
    lengths. Otherwise 'data' if it depends on the bits, else 'const'."""
    state = {"len": False, "data": False}

    def is_len_leaf(x):
        return (x[0] == "field" and x[2] in LEN_LEAVES) or (x[0] == "call" and x[1] in LEN_CALLS and x[3])

    def visit(x):
        if not isinstance(x, tuple) or not x:
            return
        if x[0] == "bin" and x[1] == "Sub" and isinstance(x[2], tuple) and is_len_leaf(x[2]) \
                and isinstance(x[3], tuple) and x[3][0] == "call" and x[3][1] == "leading_zeros":
            state["data"] = True
            return  # len - leading_zeros(x): the length cancels out
        if x[0] == "field" and x[2] == "data":
            state["data"] = True
        if x[0] == "call" and x[1] in DATA_CALLS:
            state["data"] = True
            return  # value-level accessors (get_int masks by the length, significant_bits is value-only by contract)
        if is_len_leaf(x):
            state["len"] = True
        for y in x[1:]:
            if isinstance(y, tuple):
                if y and isinstance(y[0], str):
                    visit(y)
                else:
                    for z in y:
                        visit(z)

    visit(e)
    return "len" if state["len"] else ("data" if state["data"] else "const")


def payload_free(e):
    """replace (x as V).0 by x: which variant's payload is hashed does not matter for the taint"""
    if not isinstance(e, tuple):
        return e
    if e and e[0] == "field" and e[2] == "0" and e[1][0] == "variant":
        return payload_free(e[1][1])
    return tuple(payload_free(x) if isinstance(x, tuple) else x for x in e)


def hash_taint(crate):
    res = []
    for b in crate.bodies:
        if not (b.trait == "Hash" and b.name == "hash" and b.self_family in FAMS):
            continue
        sinks = 0
        for bb, t, fn in b.iter_calls():
            if not fn:
                continue
            tr = fn.get("trait", "")
            if not (tr.endswith("hash::Hash") or tr.endswith("hash::Hasher")):
                continue
            sinks += 1
            args = [b.e_operand(a) for a in t["args"]]
            val = args[0] if tr.endswith("hash::Hash") else (args[1] if len(args) > 1 else args[0])
            tv = _taint(val)
            key = "%s|sink %s(%s)" % (b.key, fn["name"], show(val)[:60])
            if tv == "len":
                res.append((b, key, "violation",
                            "`%s` reaches the hasher but depends on the length, which == ignores "
                            "(equal values of different lengths hash differently)" % show(val)))
            else:
                res.append((b, key, "pass", "hashed value `%s` is %s-dependent" % (show(val)[:60], tv)))
            # loops controlling how many sink calls run
            for hdr, body in b.loops():
                if bb in body:
                    for cb, ct, cfn in b.iter_calls():
                        if cb in body and cfn and cfn["name"] in ("next", "next_back"):
                            a = b.e_operand(ct["args"][0])
                            if a[0] == "var":
                                src = b.iter_source(a[2])
                                tb = _taint(src)
                                lkey = "%s|loop bound %s" % (b.key, show(src)[:70])
                                if tb == "len":
                                    res.append((b, lkey, "violation",
                                                "the number of hashed words `%s` depends on the length (outside `len - leading_zeros`), "
                                                "which == ignores" % show(src)))
                                else:
                                    res.append((b, lkey, "pass", "number of hashed words is %s-dependent" % tb))
        helper_sinks = []
        if sinks == 0:
            # the loop feeding the hasher moved into a helper introduced after the review: taint its sinks with the
            # helper's parameters replaced by the actual arguments
            for bb, t, fn in b.iter_calls():
                h = crate.new_helper(fn)
                if h is None:
                    continue
                args = [b.e_operand(a) for a in t["args"]]
                mapping = {("param", h.local_name(i + 1)): args[i] for i in range(min(len(args), h.arg_count))}
                for hbb, ht, hfn in h.iter_calls():
                    tr = (hfn or {}).get("trait", "")
                    if not (tr.endswith("hash::Hash") or tr.endswith("hash::Hasher")):
                        continue
                    hargs = [h.e_operand(a) for a in ht["args"]]
                    val = hargs[0] if tr.endswith("hash::Hash") else (hargs[1] if len(hargs) > 1 else hargs[0])
                    bounds = []
                    for hdr, body in h.loops():
                        if hbb in body:
                            for cb2, ct2, cfn2 in h.iter_calls():
                                if cb2 in body and cfn2 and cfn2["name"] in ("next", "next_back"):
                                    a = h.e_operand(ct2["args"][0])
                                    if a[0] == "var":
                                        bounds.append(h.iter_source(a[2]))
                    helper_sinks.append((h, payload_free(mir.subst_expr(val, mapping)), [mir.subst_expr(x, mapping) for x in bounds]))
                if not any(hh is h for hh, _, _ in helper_sinks):
                    # the helper feeds the hasher from a closure of its own (`words.into_iter().for_each(|w| w.hash(state))`):
                    # what reaches the hasher are elements of the iterator it was handed - taint everything it was handed
                    for cb in crate.closures_of.get(h.path, []):
                        if any((cfn or {}).get("trait", "").endswith(("hash::Hash", "hash::Hasher")) for _, _, cfn in cb.iter_calls()):
                            parts = list(args)
                            for a in args:
                                for x in walk(a):
                                    if isinstance(x, tuple) and x[:1] == ("closure",):
                                        sc = storage.subst_closure(crate, x)
                                        if sc is not None:
                                            parts.append(sc[0])
                            helper_sinks.append((h, ("tuple", tuple(parts)), []))
                            break
            for h, val, bounds in helper_sinks:
                sinks += 1
                tv = _taint(val)
                tb = [_taint(x) for x in bounds]
                key = "%s|sink in helper %s" % (b.key, h.name)
                if tv == "len" or "len" in tb:
                    res.append((b, key, "violation", "the helper %s feeds `%s` (%d-word loop bounds %s) to the hasher, which depends on the "
                                "length" % (h.name, show(val)[:60], len(bounds), [show(x)[:50] for x in bounds])))
                else:
                    res.append((b, key, "pass", "helper %s feeds %s-dependent words, count %s" % (h.name, tv, tb)))
        if b.self_family == "Bv":
            sw = [1 for sb, t in b.iter_switches() if b.switch_cond(sb)[0] == ("discr", ("param", "self"))]
            if sw and helper_sinks and len({(h.path, show(v), tuple(show(x) for x in bs)) for h, v, bs in helper_sinks}) == 1:
                sw = []      # both arms hand their own payload to the same helper with the same other arguments
            res.append((b, "%s|mode-independent" % b.key, "violation" if sw else "pass",
                        "branches on the storage variant around the hasher" if sw else "no branch on the storage variant"))
        if sinks == 0:
            # the hasher may be fed from a closure handed to an iterator adaptor (`.for_each(|w| w.hash(state))`): what
            # reaches it is then an element of the adapted iterator - taint the whole iterator expression, closure bodies
            # included (a closure's own parameter stands for the element and adds nothing)
            fed = []
            for cb in crate.closures_of.get(b.path, []):
                for bb, t, fn in cb.iter_calls():
                    tr = (fn or {}).get("trait", "")
                    if tr.endswith("hash::Hash") or tr.endswith("hash::Hasher"):
                        fed.append(cb)
            if not fed:
                res.append((b, "%s|sinks" % b.key, "violation", "Hash impl feeds nothing to the hasher"))
            else:
                done = False
                for bb, t, fn in b.iter_calls():
                    e = b.e_call(t)
                    if not (is_call(e) and any(isinstance(a, tuple) and a[:1] == ("closure",) and any(a[1] == cb.path for cb in fed) for a in e[3])):
                        continue
                    parts = [e[3][0]] if e[3] else []
                    for x in walk(e):
                        if isinstance(x, tuple) and x[:1] == ("closure",):
                            sc = storage.subst_closure(crate, x)
                            if sc is not None:
                                parts.append(sc[0])
                    tv = "const"
                    for p_ in parts:
                        t2 = _taint(p_)
                        tv = "len" if "len" in (tv, t2) else ("data" if "data" in (tv, t2) else "const")
                    key = "%s|sink via %s" % (b.key, e[1])
                    sinks += 1
                    done = True
                    if tv == "len":
                        res.append((b, key, "violation", "the iterator feeding the hasher `%s` depends on the length (outside `len - "
                                    "leading_zeros`), which == ignores" % show(e)[:120]))
                    else:
                        res.append((b, key, "pass", "the hasher is fed from `%s`, which is %s-dependent" % (show(e)[:80], tv)))
                if not done:
                    res.append((b, "%s|sinks" % b.key, "undecided", "the hasher is fed from a closure whose call site was not identified"))
    # dedupe
    out, seen = [], set()
    for r in res:
        if r[1] not in seen:
            seen.add(r[1])
            out.append(r)
    return out
