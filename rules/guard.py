"""GUARD: guard dominance in both build profiles (DESIGN §4 GUARD).

Generic machinery: boolean branch conditions of a body as (block, cond, true_succ, false_succ),
relation extraction `A rel B` holding on an edge, and edge-dominance queries.
"""
from . import mir, storage
from .mir import show, is_call, is_bin, walk

FLIP = {"Lt": "Gt", "Le": "Ge", "Gt": "Lt", "Ge": "Le", "Eq": "Eq", "Ne": "Ne"}
NEG = {"Lt": "Ge", "Le": "Gt", "Gt": "Le", "Ge": "Lt", "Eq": "Ne", "Ne": "Eq"}


def cond_edges(b):
    """boolean two-way branches: (switch block, cond expr (Not stripped), true succ, false succ)"""
    out = []
    for sb, t in b.iter_switches():
        succ = b.succ[sb]
        if len(succ) != 2:
            continue
        e, m = b.switch_cond(sb)
        if e[0] == "discr":
            continue
        fs = [s for s in succ if "0" in m.get(s, [])]
        ts = [s for s in succ if s not in fs]
        if len(fs) != 1 or len(ts) != 1:
            continue
        tsucc, fsucc = ts[0], fs[0]
        while e[0] == "un" and e[1] == "Not":
            e = e[2]
            tsucc, fsucc = fsucc, tsucc
        out.append((sb, e, tsucc, fsucc))
    for sb, arms in discr_edges(b):
        ge = [s2 for s2, r in arms if r[1] == "Ge"]
        lt = [s2 for s2, r in arms if r[1] == "Lt"]
        if len(arms) == 2 and ge and lt:
            out.append((sb, [r for s2, r in arms if r[1] == "Ge"][0], ge[0], lt[0]))
    return out


def discr_edges(b):
    """multi-way branches whose arms carry an order relation between two values:
         match a.cmp(&b) { Less / Equal / Greater }           -> a < b / a == b / a > b
         a.checked_sub(b)? , match a.checked_sub(b) {Some/None} -> a >= b on the success arm, a < b on the other
       -> list of (switch block, [(successor, relation as a boolean expression)])"""
    out = []
    for sb, t in b.iter_switches():
        e, m = b.switch_cond(sb)
        if e[0] != "discr":
            continue
        x = e[1]
        arms = []
        via_branch = False
        if is_call(x, "branch") and len(x[3]) == 1:
            x, via_branch = x[3][0], True
        if is_call(x, "cmp") and len(x[3]) == 2:
            a, c = x[3]
            for s2, vals in m.items():
                if vals == ["255"]:
                    arms.append((s2, ("bin", "Lt", a, c)))
                elif vals == ["0"]:
                    arms.append((s2, ("bin", "Eq", a, c)))
                elif vals == ["1"]:
                    arms.append((s2, ("bin", "Gt", a, c)))
        elif is_call(x, ("checked_sub", "checked_add")) and len(x[3]) == 2 and x[1] == "checked_sub":
            a, c = x[3]
            some_val = "0" if via_branch else "1"       # ControlFlow::Continue = 0 ; Option::Some = 1
            for s2, vals in m.items():
                if vals == [some_val]:
                    arms.append((s2, ("bin", "Ge", a, c)))
                elif vals == ["1" if via_branch else "0"]:
                    arms.append((s2, ("bin", "Lt", a, c)))
        if arms:
            out.append((sb, arms))
    return out


def relations_on_edge(cond, taken_true):
    """list of (op, lhs, rhs) relations that hold when `cond` evaluates to taken_true"""
    rels = []
    if is_bin(cond, tuple(FLIP)):
        op = cond[1] if taken_true else NEG[cond[1]]
        rels.append((op, cond[2], cond[3]))
        rels.append((FLIP[op], cond[3], cond[2]))
    elif is_bin(cond, "BitAnd") and taken_true:
        # a && b lowered to & on bools (rare); both hold
        rels += relations_on_edge(cond[2], True) + relations_on_edge(cond[3], True)
    return rels


def edges_dominating(b, loc_block):
    """(switch block, cond, taken_true) for every conditional edge that dominates block `loc_block`"""
    out = []
    for sb, cond, ts, fs in cond_edges(b):
        if b.edge_dominates((sb, ts), loc_block) and sb != loc_block:
            out.append((sb, cond, True, ts, fs))
        elif b.edge_dominates((sb, fs), loc_block) and sb != loc_block:
            out.append((sb, cond, False, fs, ts))
    for sb, arms in discr_edges(b):
        for s2, rel in arms:
            if sb != loc_block and b.edge_dominates((sb, s2), loc_block):
                others = [o for o, _ in arms if o != s2] or [s2]
                out.append((sb, rel, True, s2, others[0]))
    return out


def is_capacity_call(e, fam=None):
    """Self::capacity() / Bvf::<I,N>::capacity() (the static one, no arguments)"""
    return is_call(e, "capacity") and len(e[3]) == 0


def failing_edge_ok(b, fail_succ):
    """the failing edge leaves by panic or Err: nothing reachable from it builds/grows a vector, and every
    return reachable from it carries an Err (or nothing returns)"""
    reach = b.reach_avoiding([fail_succ])
    rets = [x for x in reach if b.term(x)["t"] == "ret"]
    evs = [e for e in storage.events(b) if e.kind in ("agg", "lenstore", "write", "datastore") and e.loc[0] in reach]
    if not rets:
        return True, "panics"
    # Err aggregate assigned on the way
    has_err = False
    for x in reach:
        for st in b.blocks[x]["st"]:
            if st["s"] == "assign" and st["r"]["k"] == "agg" and st["r"].get("variant") == "Err":
                has_err = True
    if has_err and not evs:
        return True, "returns Err"
    # shared return block: acceptable if the reach contains an Err aggregate and the events are not on the failing path
    if has_err:
        only = b.reach_avoiding([fail_succ], avoid_blocks=rets)
        if not [e for e in evs if e.loc[0] in only]:
            return True, "returns Err"
    return False, "failing edge continues to a normal return"


def innermost_cond(b, block):
    """text of the closest conditional edge dominating `block` (used to tell apart same-shaped events)"""
    best = None
    for sb, cond, taken, succ, other in edges_dominating(b, block):
        # the closest one is dominated by all the others
        if best is None or b.block_dominates(best[0], sb):
            best = (sb, cond, taken)
    if best is None:
        return "always"
    return "%s%s" % ("" if best[2] else "not ", show(best[1]))


def disambiguate(b, items):
    """items: list of (key, loc_block, ...) -> keys made unique with `|when <cond>`"""
    seen = {}
    for it in items:
        seen.setdefault(it[0], []).append(it)
    out = []
    for it in items:
        if len(seen[it[0]]) > 1:
            out.append(("%s|when %s" % (it[0], innermost_cond(b, it[1])),) + tuple(it[1:]))
        else:
            out.append(it)
    return out


# ---------------------------------------------------------------------------------------------
# C19: capacity guards of Bvf
# ---------------------------------------------------------------------------------------------

CAP_EXCEPTIONS = {
    "copy_range": "result length range.end - min(start,end) <= source length <= capacity (index check is debug-only by the property's wording)",
    "clone": "field-wise copy of a vector of the same type",
}


def capacity_guards(crate):
    """every Bvf length growth / caller-controlled construction is dominated by a capacity comparison whose
    failing edge panics or returns Err. Returns list of (body, event-desc, verdict, msg)."""
    res = []
    for b in crate.bodies:
        if b.kind == "Closure":
            continue
        evs = storage.events(b)
        cand = []
        for e in evs:
            if e.kind == "agg" and e.adt == "Bvf":
                cand.append(("agg", e, e.length))
            elif e.kind == "lenstore":
                # lenstore on a Bvf-typed object
                fam = _obj_family(b, e.obj)
                if fam == "Bvf":
                    cand.append(("lenstore", e, e.value))
        items = []
        for kind, e, L in cand:
            desc = "%s length %s" % ("aggregate" if kind == "agg" else "store", show(L))
            key = "%s|%s:%s" % (b.key, kind, show(L))
            v, msg = _check_cap(b, e, L, kind)
            items.append((key, e.loc[0], v, "%s: %s" % (desc, msg)))
        for key, _, v, msg in disambiguate(b, items):
            res.append((b, key, v, msg))
    return res


def _obj_family(b, obj):
    if obj[0] == "param":
        for l in range(1, b.arg_count + 1):
            if b.local_name(l) == obj[1]:
                return mir.ty_family(b.local_ty(l))
    if obj[0] == "var" and len(obj) > 2:
        return mir.ty_family(b.local_ty(obj[2]))
    return None


def _check_cap(b, e, L, kind):
    # decreasing / self-bounded forms
    if kind == "lenstore":
        cur = ("field", e.obj, "length")
        if is_bin(L, "Sub") and L[2] == cur:
            return "pass", "decreases"
    if is_call(L, "min") and any(is_capacity_call(a) for a in L[3]):
        return "pass", "self-bounded by min(_, capacity())"
    if L == ("int", 0):
        return "pass", "empty"
    if b.name in CAP_EXCEPTIONS:
        return "trusted", CAP_EXCEPTIONS[b.name]
    if is_call(L, "clone") or (L[0] == "field" and L[2] == "length" and b.trait == "Clone"):
        return "trusted", CAP_EXCEPTIONS["clone"]
    # TryFrom<uN>: first branch `size_of::<I>() >= size_of::<uN>()` => BITS <= BIT_UNIT <= capacity (for N >= 1;
    # N = 0 fails the bounds check of data[0])
    doms = edges_dominating(b, e.loc[0])
    for sb, cond, taken, succ, other in doms:
        if taken and is_bin(cond, "Ge") and is_call(cond[2], "size_of") and is_call(cond[3], "size_of") \
                and L[0] == "cast" and L[1][0] == "assoc" and L[1][1] == "BITS":
            return "trusted", "size_of::<I>() >= size_of::<uN>() => BITS <= BIT_UNIT <= capacity (N >= 1; data[0] bounds-checks N = 0)"
    for sb, cond, taken, succ, other in doms:
        for op, x, y in relations_on_edge(cond, taken):
            if not is_capacity_call(y):
                # shrink branch of resize: new_len < self.length (invariant: self.length <= capacity)
                if kind == "lenstore" and op == "Lt" and x == L and y == ("field", e.obj, "length"):
                    return "pass", "guarded by %s < current length" % show(L)
                continue
            bound = None
            if x == L and op in ("Le", "Lt", "Eq"):
                bound = "%s %s capacity()" % (show(x), mir.SYM[op])
            elif op == "Lt" and is_bin(L, "Add") and L[3] == ("int", 1) and L[2] == x:
                bound = "%s < capacity() bounds %s" % (show(x), show(L))
            if bound:
                okf, how = failing_edge_ok(b, other)
                if okf:
                    return "pass", "dominated by `%s`; failing edge %s" % (bound, how)
                return "violation", "guard `%s` found but its %s" % (bound, how)
    # path form (`if new_len < len {..} else { assert!(new_len <= capacity()); .. }` with the store after the join, possibly
    # after an early return for new_len == len): every path to the store takes an edge on which the stored length is
    # bounded by capacity() (failing edge panics / returns Err) or is not larger than the current length
    good = set()
    all_edges = [(sb, cond, True, ts, fs) for sb, cond, ts, fs in cond_edges(b)] + [(sb, cond, False, fs, ts) for sb, cond, ts, fs in cond_edges(b)]
    for sb, arms in discr_edges(b):
        for s2, rel in arms:
            others = [o for o, _ in arms if o != s2] or [s2]
            all_edges.append((sb, rel, True, s2, others[0]))
    for sb, cond, taken, succ, other in all_edges:
        for op, x, y in relations_on_edge(cond, taken):
            if x != L:
                continue
            if is_capacity_call(y) and op in ("Le", "Lt", "Eq") and failing_edge_ok(b, other)[0]:
                good.add((sb, succ))
            elif kind == "lenstore" and op in ("Lt", "Le", "Eq") and y == ("field", e.obj, "length"):
                good.add((sb, succ))
    if good and e.loc[0] not in b.reach_avoiding([0], avoid_edges=good):
        return "pass", "every path to it is bounded by capacity() (failing edge panics / returns Err) or does not exceed the current length"
    # debug-only guard? (present in dbg, pruned in rel) -> plain missing here
    return "violation", "no dominating comparison of the new length with capacity() whose failing edge panics / returns Err"


# ---------------------------------------------------------------------------------------------
# C02: zero-divisor assert dominates div_rem
# ---------------------------------------------------------------------------------------------

def zero_divisor(crate):
    res = []
    for b in crate.bodies:
        if not (b.trait == "BitVector" and b.name == "div_rem"):
            continue
        divisor = ("param", b.local_name(2))
        found = None
        for sb, cond, ts, fs in cond_edges(b):
            if is_call(cond, "is_zero") and cond[3] == (divisor,):
                found = (sb, ts, fs)
                break
        if not found:
            res.append((b, False, "no branch on `%s.is_zero()`" % divisor[1]))
            continue
        sb, ts, fs = found
        # true edge (divisor is zero) must diverge
        reach = b.reach_avoiding([ts])
        if any(b.term(x)["t"] == "ret" for x in reach):
            res.append((b, False, "the zero-divisor branch can reach a return"))
            continue
        # every other effect is dominated by the non-zero edge: all calls except is_zero/panic machinery
        bad = []
        zero_reach = reach
        for cb, t, fn in b.iter_calls():
            if cb in zero_reach:
                continue
            name = fn["name"] if fn else "?"
            if name == "is_zero" and b.e_operand(t["args"][0]) == divisor:
                continue
            if not b.edge_dominates((sb, fs), cb):
                bad.append(name)
        if bad:
            res.append((b, False, "calls not dominated by the zero check: %s" % ", ".join(sorted(set(bad)))))
        else:
            res.append((b, True, "`!divisor.is_zero()` checked first; zero branch diverges; all %d other calls dominated"
                        % len([1 for _ in b.iter_calls()])))
    return res


# ---------------------------------------------------------------------------------------------
# C18: reserve dominance for Bvd growth, exact allocation of Bvd aggregates
# ---------------------------------------------------------------------------------------------

ALLOC_LEMMAS = {
    "from_hex": "capacity_from_byte_len((chars+1)/2) words >= ceil(4*chars/64)",
    "from_bytes": "capacity_from_byte_len(bytes) words = ceil(8*bytes/64)",
}


def bvd_growth(crate):
    out = []
    for b in crate.bodies:
        if b.kind == "Closure":
            continue
        res = []
        _bvd_growth_body(crate, b, res)
        items = [(key, blk, v, msg) for (_, key, v, msg, blk) in res]
        for key, _, v, msg in disambiguate(b, items):
            out.append((b, key, v, msg))
    return out


def _bvd_growth_body(crate, b, res):
    if True:
        evs = storage.events(b)
        for e in evs:
            if e.kind == "lenstore" and _obj_family(b, e.obj) == "Bvd":
                L = e.value
                cur = ("field", e.obj, "length")
                key = "%s|store:%s" % (b.key, show(L))
                if is_bin(L, "Sub") and L[2] == cur:
                    res.append((b, key, "pass", "decreases", e.loc[0]))
                    continue
                ok = None
                # reserve(obj, k) dominating with k >= growth
                for r in evs:
                    if r.kind == "mcall" and r.name == "reserve" and r.args[0] == e.obj and b.loc_dominates(r.loc, e.loc):
                        k = r.args[1]
                        if is_bin(L, "Add") and L[2] == cur and L[3] == k:
                            ok = "reserve(%s) dominates len += %s" % (show(k), show(k))
                        elif is_bin(k, "Sub") and k[2] == L and k[3] == cur:
                            ok = "reserve(%s) dominates len := %s" % (show(k), show(L))
                if ok is None:
                    for sb, cond, taken, succ, other in edges_dominating(b, e.loc[0]):
                        for op, x, y in relations_on_edge(cond, taken):
                            if op == "Lt" and x == L and y == cur:
                                ok = "shrinks (guarded by %s < current length)" % show(L)
                if ok is None:
                    # path form (`match new.cmp(&len) { Less => .., Greater => { reserve(..) .. } }` with the store after the
                    # join): every path to the store goes through a sufficient reserve() or through a branch on which the
                    # new length is not larger than the current one
                    rblocks = set()
                    for r in evs:
                        if r.kind == "mcall" and r.name == "reserve" and r.args[0] == e.obj:
                            k = r.args[1]
                            if (is_bin(L, "Add") and L[2] == cur and L[3] == k) or (is_bin(k, "Sub") and k[2] == L and k[3] == cur):
                                rblocks.add(r.loc[0])
                    shrink_edges = set()
                    for sb, cond, ts, fs in cond_edges(b):
                        for taken, succ in ((True, ts), (False, fs)):
                            if any(op in ("Lt", "Le", "Eq") and x == L and y == cur for op, x, y in relations_on_edge(cond, taken)):
                                shrink_edges.add((sb, succ))
                    for sb, arms in discr_edges(b):
                        for succ, rel in arms:
                            if any(op in ("Lt", "Le", "Eq") and x == L and y == cur for op, x, y in relations_on_edge(rel, True)):
                                shrink_edges.add((sb, succ))
                    if (rblocks or shrink_edges) and e.loc[0] not in b.reach_avoiding([0], avoid_blocks=rblocks, avoid_edges=shrink_edges):
                        ok = "every path to the store passes reserve(%s - len) or a branch with %s <= len" % (show(L), show(L))
                if ok is None and b.name == "read":
                    ok_l = _read_alloc_lemma(b, e)
                    if ok_l:
                        ok = ok_l
                if ok:
                    res.append((b, key, "pass", ok, e.loc[0]))
                else:
                    res.append((b, key, "violation", "Bvd length store %s is not dominated by a sufficient reserve()" % show(L), e.loc[0]))
            if e.kind == "agg" and e.adt == "Bvd":
                key = "%s|agg:%s" % (b.key, show(e.length))
                v, msg = _bvd_alloc(crate, b, e)
                res.append((b, key, v, msg, e.loc[0]))


def _read_alloc_lemma(b, e):
    from .mask import _exact_fit
    if _exact_fit(None, b, e.obj, e.value):
        return "storage comes from from_bytes over a ceil(len/8)-byte buffer: cap(len) words (lemma)"
    return None


def _bvd_alloc(crate, b, e):
    from .mask import vec_alloc_len, cap_arg
    L = e.length
    d = e.data
    if is_call(d, "into_boxed_slice") and d[3]:
        d = d[3][0]
    init = d
    if d[0] == "var" and len(d) > 2:
        init = b.init_expr(d[2])
    if init is None:
        return "undecided", "storage initialiser not found"
    va = vec_alloc_len(init)
    if va is not None:
        n = va[1]
        if cap_arg(n) == L:
            return "pass", "allocates capacity_from_bit_len(%s) words for length %s" % (show(L), show(L))
        if b.name == "with_capacity" and L == ("int", 0):
            return "pass", "allocates cap(%s) words, length 0" % show(cap_arg(n) or n)
        if b.name in ALLOC_LEMMAS:
            return "trusted", ALLOC_LEMMAS[b.name]
        return "violation", "storage has %s words but the length is %s" % (show(n), show(L))
    # copies / conversions
    if is_call(init, "clone") or (init[0] == "field" and init[2] == "data"):
        return "pass", "same storage as the source"
    if init[0] == "param":
        # Bvd::new: the assert length <= data.len()*BIT_UNIT must dominate
        for sb, cond, taken, succ, other in edges_dominating(b, e.loc[0]):
            for op, x, y in relations_on_edge(cond, taken):
                if op == "Le" and x == L and is_bin(y, "Mul"):
                    return "pass", "asserted %s <= %s" % (show(x), show(y))
        return "violation", "caller-supplied storage without a length <= capacity assertion"
    if is_call(init, "collect") and init[3] and is_call(init[3][0], "map"):
        rng = init[3][0][3][0]
        # 0..int_len::<u64>(src) words, length len(src) / BITS
        if rng[0] == "agg" and rng[1].startswith("Range") and is_call(rng[3][1], "int_len"):
            return "pass", "allocates int_len::<u64>(%s) = ceil(len/64) words" % show(rng[3][1][3][0])
        if is_call(rng, ("iter",)):
            src = rng[3][0]
            return "pass", "one word per source word of %s" % show(src)[:60]
    return "undecided", "unrecognised storage initialiser %s" % show(init)[:80]
