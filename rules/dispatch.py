"""DISPATCH: mode symmetry of the auto type Bv (DESIGN §4 FWD/DISPATCH).

Every non-operator method implemented for Bv is either a *symmetric dispatcher* - `match self`
whose two arms call the same-named method of the inline and of the heap implementation with the
same remaining arguments, returning the result unchanged (or re-wrapped in the same variant) - or
one of the enumerated mode-aware methods, which have their own rules (GUARD(reserve), K6
conversions, capacity predicates).
"""
from . import mir
from .mir import show

# methods of Bv that legitimately depend on / change the storage mode, with the rule that covers them
MODE_AWARE = {
    "reserve": "promotes through Bvd::from(&Bvf) (K6) under len+additional > capacity (C18 GUARD)",
    "shrink_to_fit": "demotes through Bvp::try_from(&Bvd) (K6) under len <= capacity (C18 SIB slot)",
    "with_capacity": "constructor: chooses mode by requested capacity (C18)",
    "zeros": "constructor: chooses mode by length (C18/C19)",
    "ones": "constructor: chooses mode by length (C18/C19)",
    "from_binary": "constructor: chooses mode by byte length (C15)",
    "from_hex": "constructor: chooses mode by byte length (C15)",
    "from_bytes": "constructor: chooses mode by byte length (C13)",
    "read": "constructor: chooses mode by length (C13)",
    "capacity": "the one observer allowed to depend on the mode",
    "copy_range": "demotes a short slice of a heap vector (C08)",
    "push": "reserve(1) then symmetric dispatch (C18)",
    "resize": "reserve(growth) then symmetric dispatch (C18)",
    "append": "promotes when the result does not fit inline (C18)",
    "prepend": "promotes when the result does not fit inline (C18)",
    "div_rem": "own shift-subtract implementation on Bv values (C02)",
    "iter": "BitIterator::new(self)",
    "into_iter": "BitIterator::new(self)",
    "hash": "goes through the mode-independent accessor get_int::<u64> (C10)",
    "from_iter": "with_capacity + push",
    "extend": "reserve + push",
    "from": "conversions (C11/C12)",
    "try_from": "conversions (C11/C12)",
    "cmp": "four-way dispatch on both operands' modes (C09)",
    "partial_cmp": "Some(cmp) / dispatch (C09)",
    "eq": "dispatch on both operands' modes (C09)",
    "fmt": "Debug derive / formatting dispatch",
    "clone": "derived",
}


def payload_variant(e):
    if e[0] == "field" and e[2] == "0" and e[1][0] == "variant" and e[1][1][0] == "param":
        return e[1][2]
    return None


def analyse(crate):
    """returns list of (body, verdict, msg) for every non-operator fn whose Self is Bv"""
    from .fwd import OP_TRAITS
    res = []
    for b in crate.bodies:
        if b.kind == "Closure" or b.self_family != "Bv" or b.trait in OP_TRAITS:
            continue
        from . import storage as _storage
        if _storage.is_new_private_helper(b):
            continue        # a dispatch helper introduced after the review is not an API method of Bv
        if (b.impl or {}).get("self", "").startswith("&"):
            pass
        calls = []
        for bb, t, fn in b.iter_calls():
            if fn is None:
                continue
            args = tuple(b.e_operand(a) for a in t["args"])
            calls.append((fn["name"], args, fn))
        by_variant = {"Fixed": [], "Dynamic": []}
        other = []
        for name, args, fn in calls:
            v = payload_variant(args[0]) if args else None
            if v in by_variant and args[0][1][1] == ("param", b.local_name(1)):
                by_variant[v].append((name, args[1:]))
            else:
                other.append(name)
        sym = (len(by_variant["Fixed"]) == 1 and len(by_variant["Dynamic"]) == 1 and not other
               and by_variant["Fixed"][0] == by_variant["Dynamic"][0] and by_variant["Fixed"][0][0] == b.name)
        if sym:
            # the result is returned unchanged or re-wrapped in the same variant
            ret = b.return_expr()
            alts = ret[2] if ret[0] == "phi" else (ret,)
            okret = True
            for alt in alts:
                inner = alt
                want_variant = None
                if alt[0] == "agg" and alt[1] == "Bv" and len(alt[3]) == 1:
                    inner = alt[3][0]
                    want_variant = alt[2]
                if inner == ("const", "()"):
                    continue
                if inner[0] == "call" and inner[1] == b.name:
                    v = payload_variant(inner[3][0])
                    if want_variant is not None and v != want_variant:
                        okret = False
                elif inner[0] in ("bin", "un"):
                    pass
                else:
                    okret = False
            if okret:
                res.append((b, "symmetric", "both arms call %s(%s)" % (b.name, ", ".join(show(a) for a in by_variant["Fixed"][0][1]))))
            else:
                res.append((b, "violation", "dispatch arms agree but the result is not returned unchanged: %s" % show(ret)[:120]))
            continue
        if b.name in MODE_AWARE:
            res.append((b, "mode-aware", MODE_AWARE[b.name]))
            continue
        f = by_variant["Fixed"]
        d = by_variant["Dynamic"]
        res.append((b, "violation",
                    "inline and heap arms differ: Fixed arm calls %s, Dynamic arm calls %s%s"
                    % ([(n, [show(x) for x in a]) for n, a in f], [(n, [show(x) for x in a]) for n, a in d],
                       (", plus %s" % other) if other else "")))
    return res
