"""Run the bva-facts driver over a source tree and return the fact file(s).

Facts are cached under /verif/.cache/<key>/ where key = sha256 over the content of
src/**, Cargo.toml, Cargo.lock, the driver binary and the configuration name, so a
changed tree can never be served stale facts. Scratch target dirs are created with
mkdtemp and removed afterwards.
"""
import hashlib
import json
import os
import shutil
import subprocess
import sys
import tempfile
import time

VERIF = os.path.dirname(os.path.dirname(os.path.abspath(__file__)))
DRIVER_DIR = os.path.join(VERIF, "driver")
DRIVER = os.path.join(DRIVER_DIR, "target", "release", "bva-facts")
CACHE = os.environ.get("BVA_FACTS_CACHE") or os.path.join(VERIF, ".cache")

CONFIGS = {
    # dev profile: debug assertions + overflow checks on
    "dbg": "-Awarnings",
    # release-like: both off
    "rel": "-Awarnings -C debug-assertions=off -C overflow-checks=off",
}


def _sysroot():
    return subprocess.check_output(["rustc", "+nightly", "--print", "sysroot"], text=True).strip()


def ensure_driver():
    if os.path.exists(DRIVER):
        # rebuild if sources are newer
        src_m = max(os.path.getmtime(os.path.join(DRIVER_DIR, "src", "main.rs")),
                    os.path.getmtime(os.path.join(DRIVER_DIR, "Cargo.toml")))
        if os.path.getmtime(DRIVER) >= src_m:
            return
    env = dict(os.environ, CARGO_NET_OFFLINE="true")
    r = subprocess.run(["cargo", "+nightly", "build", "--release", "--offline"],
                       cwd=DRIVER_DIR, env=env, stdout=subprocess.PIPE, stderr=subprocess.STDOUT, text=True)
    if r.returncode != 0 or not os.path.exists(DRIVER):
        sys.stderr.write(r.stdout)
        raise SystemExit("bva-facts driver failed to build")


def tree_key(repo, config):
    h = hashlib.sha256()
    h.update(config.encode())
    h.update(CONFIGS[config].encode())
    files = []
    for root, dirs, fs in os.walk(os.path.join(repo, "src")):
        dirs.sort()
        for f in sorted(fs):
            files.append(os.path.join(root, f))
    for f in ("Cargo.toml", "Cargo.lock"):
        p = os.path.join(repo, f)
        if os.path.exists(p):
            files.append(p)
    files.append(DRIVER)
    for p in files:
        h.update(os.path.relpath(p, repo).encode() if p.startswith(repo) else b"driver")
        with open(p, "rb") as fh:
            h.update(hashlib.sha256(fh.read()).digest())
    return h.hexdigest()[:32]


def extract(repo, config, use_cache=True):
    """Return path of the JSON fact file for (repo working tree, config)."""
    ensure_driver()
    key = tree_key(repo, config)
    cdir = os.path.join(CACHE, key)
    out = os.path.join(cdir, "facts-%s.json" % config)
    if use_cache and os.path.exists(out) and os.path.getsize(out) > 1000:
        return out
    os.makedirs(cdir, exist_ok=True)
    tgt = tempfile.mkdtemp(prefix="bva-facts-tgt-")
    tmp_out = os.path.join(tgt, "facts.json")
    t0 = time.time()
    try:
        env = dict(os.environ)
        env.update({
            "LD_LIBRARY_PATH": os.path.join(_sysroot(), "lib") + ":" + env.get("LD_LIBRARY_PATH", ""),
            "RUSTFLAGS": CONFIGS[config],
            "RUSTC_WORKSPACE_WRAPPER": DRIVER,
            "BVA_FACTS_OUT": tmp_out,
            "CARGO_TARGET_DIR": os.path.join(tgt, "t"),
            "CARGO_NET_OFFLINE": "true",
        })
        env.pop("RUSTC_WRAPPER", None)
        r = subprocess.run(["cargo", "+nightly", "check", "--offline", "--lib"], cwd=repo, env=env,
                           stdout=subprocess.PIPE, stderr=subprocess.STDOUT, text=True)
        if r.returncode != 0:
            sys.stderr.write(r.stdout)
            raise SystemExit("BUILD-FAILED: cargo check of %s (config %s) failed; no verdict possible" % (repo, config))
        if not os.path.exists(tmp_out) or os.path.getmtime(tmp_out) < t0 - 1:
            raise SystemExit("FACTS-MISSING: driver produced no fresh fact file (config %s)" % config)
        shutil.move(tmp_out, out)
    finally:
        shutil.rmtree(tgt, ignore_errors=True)
    _prune_cache(keep=key)
    return out


def _prune_cache(keep, max_entries=12):
    try:
        ents = [(os.path.getmtime(os.path.join(CACHE, e)), e) for e in os.listdir(CACHE)]
    except FileNotFoundError:
        return
    ents.sort(reverse=True)
    for _, e in ents[max_entries:]:
        if e != keep:
            shutil.rmtree(os.path.join(CACHE, e), ignore_errors=True)


def load(repo, config):
    with open(extract(repo, config)) as fh:
        return json.load(fh)


if __name__ == "__main__":
    repo = sys.argv[1] if len(sys.argv) > 1 else "/repo"
    for c in CONFIGS:
        t = time.time()
        p = extract(repo, c)
        print(c, p, os.path.getsize(p), "%.1fs" % (time.time() - t))
