"""UNWRAP: every Option/Result unwrap/expect is discharged by the callee's own failure predicate
(DESIGN §4 UNWRAP). Universe: calls of core `unwrap`/`expect` in all bodies of the crate."""
from . import mir, guard, storage
from .mir import show, is_call, is_bin, walk

TABLE = [
    # (key fragment, scrutinee fragment, reason)
    ("Display>::fmt", "from_digit(", "remainder of a division by ten is a single decimal digit (r < 10)"),
    ("Display>::fmt", "try_from(div_rem(", "remainder of a division by ten has at most 4 significant bits <= 32"),
    ("<Bvf<I, N> as Display>::fmt", "try_from(10)", "10u8: the integer fits when capacity >= 4 bits; narrower fixed types cannot format in base ten at all"),
    ("<Bvf<I, N> as BitVector>::prepend", "get_int(self, int_len(prefix) - 1)",
     "self was just resized to len + len(prefix) >= len(prefix) > 0 bits, so byte int_len::<u8>(prefix) - 1 exists"),
]


def _range_end_ok(end, r, J):
    """end bounds an index into the J-words of r: int_len::<J>(r), min(_, int_len(r)), int_len(r) - 1"""
    if is_call(end, "int_len") and end[3] == (r,):
        return True
    if is_call(end, "min"):
        return any(_range_end_ok(a, r, J) for a in end[3])
    if is_bin(end, "Sub") and end[3][0] == "int":
        return _range_end_ok(end[2], r, J)
    if is_bin(end, "Div") and is_bin(end[2], "Add"):
        # (significant_bits(r) + 63) / 64  <= int_len::<u64>(r)
        inner = end[2]
        if is_call(inner[2], "significant_bits") and inner[2][3] == (r,) and inner[3] == ("int", 63) and end[3] == ("int", 64):
            return True
    return False


def sites(crate):
    """yield (body, key, verdict, msg)"""
    explicit_tryfrom_targets = set()
    for imp in crate.impls:
        h = imp["hdr"]
        if h.get("trait", "").endswith("TryFrom"):
            explicit_tryfrom_targets.add(mir.ty_family(h["self"]))
    always_some = {}

    def returns_some(body, depth=0):
        """every return of `body` is Some(_)"""
        if body is None or depth > 4:
            return False
        if body.path in always_some:
            return always_some[body.path]
        always_some[body.path] = False
        ret = body.return_expr()
        alts = ret[2] if ret[0] == "phi" else (ret,)
        ok = True
        for a in alts:
            if a[0] == "agg" and a[2] == "Some":
                continue
            if is_call(a, "map") and a[3] and is_call(a[3][0], ("partial_cmp",)):
                tgt = _resolve(crate, body, a[3][0])
                if tgt is not None and returns_some(tgt, depth + 1):
                    continue
            if is_call(a, "partial_cmp"):
                tgt = _resolve(crate, body, a)
                if tgt is not None and returns_some(tgt, depth + 1):
                    continue
            if is_call(a, "or") and len(a[3]) == 2 and a[3][1][0] == "agg" and a[3][1][2] == "Some":
                continue        # x.or(Some(_)) is never None
            if is_call(a, ("Some",)):
                continue
            ok = False
        always_some[body.path] = ok
        return ok

    for b in crate.bodies:
        items = []
        for bb, t, fn in b.iter_calls():
            if not (fn and fn["name"] in ("unwrap", "expect") and fn["crate"] == "core"):
                continue
            e = b.e_operand(t["args"][0])
            key = "%s|%s(%s)" % (b.key, fn["name"], show(e)[:90])
            v, msg = _discharge(crate, b, bb, e, explicit_tryfrom_targets, returns_some)
            items.append((key, bb, v, msg))
        seen = set()
        for key, bb, v, msg in items:
            if key in seen:
                continue
            seen.add(key)
            yield b, key, v, msg


def _resolve(crate, body, call_expr):
    q = call_expr[2]
    t = crate.body(q)
    return t


def _discharge(crate, b, bb, e, explicit_tryfrom_targets, returns_some):
    # U1: get_int(r, i) with i bounded by int_len(r)
    if is_call(e, "get_int") and len(e[3]) == 2:
        r, i = e[3]
        J = e[4][-1] if len(e) > 4 and e[4] else None
        if i[0] == "iv":
            src = b.iter_source(i[1])
            while is_call(src, ("rev", "into_iter")) and src[3]:
                src = src[3][0]
            if src[0] == "agg" and src[1].startswith("Range") and _range_end_ok(src[3][1], r, J):
                return "pass", "U1: index ranges over %s, bounded by int_len of the same vector" % show(src)
        if b.kind == "Closure" and i[0] == "param":
            # closure |i| get_int(cap, i) used in (0..int_len(cap)).map(..): check the creation site
            par = crate.body(b.parent)
            if par is not None:
                for x in _all_exprs(par):
                    if is_call(x, "map") and len(x[3]) == 2 and x[3][1][0] == "closure" and x[3][1][1] == b.path:
                        rng = x[3][0]
                        sc = storage.subst_closure(crate, x[3][1])
                        if sc is None:
                            continue
                        cap_r = None
                        for y in walk(sc[0]):
                            if is_call(y, "get_int") and len(y[3]) == 2:
                                cap_r = y[3][0]
                        if rng[0] == "agg" and rng[1].startswith("Range") and cap_r is not None \
                                and _range_end_ok(rng[3][1], cap_r, J):
                            return "pass", "U1: closure index ranges over %s" % show(rng)
        if is_bin(i, "Sub") and i[3] == ("int", 1) and is_call(i[2], "int_len") and i[2][3] == (r,):
            for sb, cond, taken, succ, other in guard.edges_dominating(b, bb):
                if is_call(cond, "is_empty") and cond[3] == (r,) and not taken:
                    return "pass", "U1: last word int_len-1 of a vector known to be non-empty"
    # U2: try_from / try_into towards a fixed vector, dominated by a capacity comparison of the source length
    if is_call(e, ("try_from", "try_into")) and e[3]:
        x = e[3][0]
        targs = e[4] if len(e) > 4 else ()
        tgt = None
        for ta in targs:
            f = mir.ty_family(ta)
            if f in ("Bvf", "Bvd", "Bv") and not ta.startswith("&"):
                tgt = (f, ta)
        qual = e[2] or ""
        if tgt is None:
            if "Bvf<" in qual or "fixed::Bvf" in qual:
                tgt = ("Bvf", qual)
        if tgt and tgt[0] in ("Bvd", "Bv"):
            if tgt[0] not in explicit_tryfrom_targets:
                return "pass", "U3: no TryFrom impl targets %s explicitly, so the conversion is the blanket one with Error = Infallible" % tgt[0]
        if tgt and tgt[0] == "Bvf":
            # integer source with static capacity >= width: Bvf<u64, 2>::try_from(uN)
            src_ty = None
            if x[0] == "param":
                for l in range(1, b.arg_count + 1):
                    if b.local_name(l) == x[1]:
                        src_ty = mir.short_ty(b.local_ty(l)).lstrip("&")
            if src_ty in ("u8", "u16", "u32", "u64", "u128", "usize") or x[0] == "int":
                m = _static_capacity(tgt[1])
                width = {"u8": 8, "u16": 16, "u32": 32, "u64": 64, "u128": 128, "usize": 64}.get(src_ty, 8)
                if m is not None and m >= width:
                    return "pass", "U2: static capacity %d >= %d bits of the integer" % (m, width)
                # Bvp::try_from(int) under size_of::<uN>() * 8 <= Bvp::capacity()
                for sb, cond, taken, succ, other in guard.edges_dominating(b, bb):
                    for op, l, r in guard.relations_on_edge(cond, taken):
                        if op == "Le" and guard.is_capacity_call(r) and is_bin(l, "Mul") and is_call(l[2], "size_of"):
                            return "pass", "U2: guarded by size_of::<uN>() * 8 <= capacity()"
            # vector source: len(x) <= capacity dominating
            for sb, cond, taken, succ, other in guard.edges_dominating(b, bb):
                for op, l, r in guard.relations_on_edge(cond, taken):
                    if op in ("Le", "Lt") and guard.is_capacity_call(r):
                        if is_call(l, "len") and (l[3] == (x,) or _same_obj(l[3][0], x)):
                            return "pass", "U2: guarded by len(%s) <= capacity()" % show(x)[:60]
                        if guard.is_capacity_call(l):
                            # Bvf::<I,N>::capacity() <= Bvp::capacity(): source capacity bounds its length
                            return "pass", "U2: guarded by source capacity <= target capacity (len <= capacity of the source)"
                        # slice source: len(slice) * BITS <= capacity() is exactly the failure predicate of TryFrom<&[J]>
                        if is_bin(l, "Mul") and any(is_call(y, "len") and y[3] == (x,) for y in (l[2], l[3])) \
                                and any(y[0] == "assoc" and y[1] == "BITS" for y in (l[2], l[3])):
                            return "pass", "U2: guarded by len(%s) * BITS <= capacity()" % show(x)[:40]
                        # integer source: uN::BITS <= capacity()
                        if (l[0] == "cast" and l[1][0] == "assoc" and l[1][1] == "BITS") or (l[0] == "assoc" and l[1] == "BITS"):
                            return "pass", "U2: guarded by BITS <= capacity()"
            # trimmed source: copy_range(d, 0..k) with k <= significant_bits(self) <= len(self) <= capacity
            if is_call(x, "copy_range") and len(x[3]) == 2:
                rng = x[3][1]
                if rng[0] == "agg" and rng[3][0] == ("int", 0):
                    k = rng[3][1]
                    for sb, cond, taken, succ, other in guard.edges_dominating(b, bb):
                        for op, l, r in guard.relations_on_edge(cond, taken):
                            if op == "Le" and l == k and is_call(r, "significant_bits") and r[3] == (("param", "self"),):
                                return "pass", ("U2: source trimmed to %s bits, guarded by %s <= significant_bits(self) <= capacity"
                                                % (show(k), show(k)))
    # U5: partial_cmp(..).unwrap() with an always-Some callee
    if is_call(e, "partial_cmp"):
        tgt = _resolve(crate, b, e)
        if tgt is not None and returns_some(tgt):
            return "pass", "U5: every return of %s is Some(_)" % tgt.key
    txt = show(e)
    for kf, frag, reason in TABLE:
        if kf in b.key and frag in txt:
            return "trusted", reason
    um = b.unmodelled_iteration()
    if um and mir.contains(e, lambda x: isinstance(x, tuple) and x[:1] == ("iv",)):
        # the index is a counter of a walk over a split / chunked slice whose length this rule does not know
        return "undecided", "`%s` is unwrapped; its index runs over %s, whose bounds are not modelled: not decided" % (txt[:90], ", ".join(um))
    return "unmatched", "`%s` is unwrapped but no dominating guard matches the callee's failure predicate" % txt[:120]


def _same_obj(a, b):
    return a == b


def _static_capacity(ty):
    """'Bvf<u64, 2>' -> 128"""
    import re
    m = re.search(r"Bvf<(u8|u16|u32|u64|u128|usize), (\d+)>", ty)
    if not m:
        return None
    w = {"u8": 8, "u16": 16, "u32": 32, "u64": 64, "u128": 128, "usize": 64}[m.group(1)]
    return w * int(m.group(2))


def _all_exprs(b):
    for bb, i, st in b.iter_stmts():
        if st["s"] == "assign":
            yield from walk(b.e_rvalue(st["r"]))
    for bb, t, fn in b.iter_calls():
        yield from walk(b.e_call(t))
