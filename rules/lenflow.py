"""LENFLOW: the length of a vector that a conversion assembles from other conversions.

The LEN family reads the length a function stores or builds (`Bvd { data, length: n }`, `self.length = n`). A conversion
may instead obtain its result from another conversion and adjust it (`let mut r = Bvd::from(&words[..used]); if c {
r.resize(length, Zero) } r`). Then the resulting length is the *callee's* length effect composed with this body's own
arithmetic, and it may differ between paths. This module composes them:

  * the length of the initial value comes from the callee's own aggregate (its parameters and type parameters replaced by
    the actual arguments), or from zeros(n) / ones(n) / copy_range / clone;
  * along every acyclic path to the return, length-changing calls on the result transform it (resize, push, pop, ...);
  * the final expression is compared with the expected length under the branch conditions of that path: linear equality
    proves it; otherwise small concrete values of the opaque terms (lengths around word boundaries, word widths 8..128)
    are searched for a counter-example consistent with the path conditions. A counter-example is a violation (the model
    is printed); neither proof nor counter-example is undecided.

No code is run: the formulas are read off the MIR and evaluated as arithmetic.
"""
import itertools

from . import mir, storage, guard
from .mir import show, is_call, is_bin, walk

LEN_DOMAIN = (0, 1, 7, 8, 9, 63, 64, 65, 127, 128, 129, 191, 192, 200, 256)
WIDTH_DOMAIN = (8, 16, 32, 64, 128)


class NoValue(Exception):
    pass


def _strip_refs(e):
    while isinstance(e, tuple) and e and ((e[0] in ("deref", "ref") and len(e) == 2)
                                          or (is_call(e, ("deref", "borrow", "as_ref", "as_slice")) and len(e[3]) == 1)):
        e = e[1] if e[0] in ("deref", "ref") else e[3][0]
    return e


def into_inner_is_fields(crate):
    """DEFS-style lemma: Bvf::into_inner(self) returns (self.data, self.length)"""
    for b in crate.bodies:
        if b.name == "into_inner" and b.self_family == "Bvf" and b.kind != "Closure":
            r = b.return_expr()
            s = ("param", b.local_name(1))
            return r == ("tuple", (("field", s, "data"), ("field", s, "length")))
    return False


def canon(crate, e):
    """rewrite into_inner(P).1 -> P.length, len(P) -> P.length for vectors, Bvf's BIT_UNIT -> I::BITS, Bvd's BIT_UNIT -> 64,
    len(x[..n]) -> n, len(x[a..b]) -> b - a"""
    lemma = into_inner_is_fields(crate)

    def go(x):
        if not isinstance(x, tuple) or not x:
            return x
        x = tuple(go(y) if isinstance(y, tuple) else y for y in x)
        if x[0] == "field" and x[2] == "1" and is_call(x[1], "into_inner") and len(x[1][3]) == 1 and lemma:
            return ("field", _strip_refs(x[1][3][0]), "length")
        if x[0] == "assoc" and x[1] == "BIT_UNIT":
            q = x[2] or ""
            if "Bvd" in q:
                return ("int", 64)
            if "Bvf" in q and len(x) > 3 and x[3]:
                return ("assoc", "BITS", "Constants::BITS", (x[3][0],))
        if x[0] == "assoc" and x[1] == "BITS" and len(x) > 3:
            return ("assoc", "BITS", "Constants::BITS", x[3])
        if x[0] == "cast" and x[2] == "usize":
            return x[1]
        if is_call(x, "len") and len(x[3]) == 1:
            a = _strip_refs(x[3][0])
            if is_call(a, ("index", "index_mut")) and len(a[3]) == 2 and a[3][1][0] == "agg":
                r = a[3][1]
                if r[1] == "RangeTo" and len(r[3]) == 1:
                    return r[3][0]
                if r[1] == "Range" and len(r[3]) == 2:
                    return ("bin", "Sub", r[3][1], r[3][0])
            if "BitVector" in (x[2] or "") or "Bvf" in (x[2] or "") or "Bvd" in (x[2] or "") or "Bv " in (x[2] or ""):
                return ("field", a, "length")
        return x

    return go(e)


def _call_site(b, e):
    for bb, t, fn in b.iter_calls():
        if fn and b.e_call(t) == e:
            return bb, t, fn
    return None


def length_of_value(crate, b, e, depth=0):
    """symbolic bit length of the vector denoted by expression e in body b, or None"""
    e = mir.strip_casts(e)
    while is_call(e, ("unwrap", "expect", "into", "to_owned")) and e[3] and depth < 4:
        inner = mir.strip_casts(e[3][0])
        if is_call(e, "into") and not is_call(inner):
            break
        e = inner
    if e[0] in ("param",) or (e[0] == "field" and e[2] == "0" and e[1][0] == "variant"):
        return ("field", _strip_refs(e), "length")
    if is_call(e, ("zeros", "ones")) and e[3]:
        return e[3][0]
    if is_call(e, "with_capacity"):
        return ("int", 0)
    if is_call(e, "clone") and len(e[3]) == 1:
        return length_of_value(crate, b, e[3][0], depth + 1)
    if is_call(e, "copy_range") and len(e[3]) == 2 and e[3][1][0] == "agg" and e[3][1][1] == "Range":
        a0, b0 = e[3][1][3]
        return ("bin", "Sub", b0, a0)
    if is_call(e, ("from", "try_from", "into", "try_into")) and len(e[3]) == 1:
        cs = _call_site(b, e)
        arg = e[3][0]
        if cs is not None:
            bb, t, fn = cs
            res = fn.get("res") or {}
            path = res.get("path") or fn.get("path")
            hb = crate.body(path) if path and (fn.get("local") or res.get("local")) else None
            if hb is not None and hb is not b and hb.kind in ("Fn", "AssocFn") and hb.arg_count == 1:
                hevs = storage.events(hb)
                aggs = [ev for ev in hevs if ev.kind == "agg"]
                lens = [ev for ev in hevs if ev.kind == "lenstore"]
                if len(aggs) == 1 and not lens:
                    L = aggs[0].length
                    L = mir.subst_expr(L, {("param", hb.local_name(1)): arg})
                    gens = [g.split(":")[0] for g in hb.raw.get("generics", [])]
                    targs = tuple(mir.short_ty(a) for a in (res.get("args") or fn.get("args") or []))
                    if gens and len(gens) == len(targs):
                        L = mir.subst_types(L, dict(zip(gens, targs)))
                    return L
                if not aggs and not lens and depth < 3:
                    # the callee delegates in turn
                    r = hb.return_expr()
                    inner = length_of_value(crate, hb, r, depth + 1)
                    if inner is not None:
                        return mir.subst_expr(inner, {("param", hb.local_name(1)): arg})
        a = _strip_refs(mir.strip_casts(arg))
        if a[0] == "param":
            return ("field", a, "length")
    return None


def _paths(b, start, limit=64):
    """acyclic block paths from `start` to a return block"""
    rets = set(b.return_blocks())
    out = []

    def go(x, path):
        if len(out) >= limit:
            return
        if x in rets:
            out.append(path + [x])
            return
        for y in b.succ[x]:
            if y in path or y == x:
                continue
            go(y, path + [x])

    go(start, [])
    return out


def _leaves(e, out):
    if not isinstance(e, tuple) or not e or e[0] == "int":
        return
    if e[0] == "bin" and e[1] in ("Add", "Sub", "Mul", "Div", "Rem"):
        _leaves(e[2], out)
        _leaves(e[3], out)
        return
    if e[0] == "cast":
        _leaves(e[1], out)
        return
    if is_call(e, ("min", "max", "saturating_sub", "div_ceil")) and len(e[3]) == 2:
        _leaves(e[3][0], out)
        _leaves(e[3][1], out)
        return
    if is_call(e, "capacity_from_bit_len") and len(e[3]) == 1:
        _leaves(e[3][0], out)
        return
    if e not in out:
        out.append(e)


def _eval(e, env):
    if e[0] == "int":
        return e[1]
    if e[0] == "bin" and e[1] in ("Add", "Sub", "Mul", "Div", "Rem"):
        x, y = _eval(e[2], env), _eval(e[3], env)
        if e[1] == "Add":
            return x + y
        if e[1] == "Mul":
            return x * y
        if e[1] == "Sub":
            if x < y:
                raise NoValue()
            return x - y
        if y == 0:
            raise NoValue()
        return x // y if e[1] == "Div" else x % y
    if e[0] == "cast":
        return _eval(e[1], env)
    if is_call(e, "min") and len(e[3]) == 2:
        return min(_eval(e[3][0], env), _eval(e[3][1], env))
    if is_call(e, "max") and len(e[3]) == 2:
        return max(_eval(e[3][0], env), _eval(e[3][1], env))
    if is_call(e, "saturating_sub") and len(e[3]) == 2:
        return max(0, _eval(e[3][0], env) - _eval(e[3][1], env))
    if is_call(e, "div_ceil") and len(e[3]) == 2:
        d = _eval(e[3][1], env)
        if d == 0:
            raise NoValue()
        return -(-_eval(e[3][0], env) // d)
    if is_call(e, "capacity_from_bit_len") and len(e[3]) == 1:
        return (_eval(e[3][0], env) + 63) // 64
    if e in env:
        return env[e]
    raise NoValue()


_OPS = {"Lt": lambda x, y: x < y, "Le": lambda x, y: x <= y, "Gt": lambda x, y: x > y, "Ge": lambda x, y: x >= y,
        "Eq": lambda x, y: x == y, "Ne": lambda x, y: x != y}


def counter_model(got, want, rels):
    """values of the opaque terms under which every relation in rels holds and got != want; None if there is none in the
    domain, 'too-many' when the search space is too large"""
    leaves = []
    for x in [got, want] + [z for op, l, r in rels for z in (l, r)]:
        _leaves(x, leaves)
    if len(leaves) > 4:
        return "too-many"
    doms = [WIDTH_DOMAIN if (lf[0] == "assoc" and lf[1] == "BITS") else LEN_DOMAIN for lf in leaves]
    checked = 0
    for combo in itertools.product(*doms):
        env = dict(zip(leaves, combo))
        try:
            if not all(_OPS[op](_eval(l, env), _eval(r, env)) for op, l, r in rels if op in _OPS):
                continue
            g, w = _eval(got, env), _eval(want, env)
        except NoValue:
            continue
        checked += 1
        if g != w:
            return env, g, w
    return None if checked else "too-many"


def conversion_lengths(crate):
    """[(body, key, verdict, msg)] for From/TryFrom conversions between the implementations whose result is assembled from
    another conversion / constructor plus length-changing calls (no aggregate or length store of their own)"""
    res = []
    for b in crate.bodies:
        if b.kind == "Closure" or b.self_family not in ("Bvf", "Bvd") or b.trait not in ("From", "TryFrom") or not b.trait_args:
            continue
        if mir.ty_family(b.trait_args[0]) not in ("Bvf", "Bvd", "Bv"):
            continue
        evs = storage.events(b)
        if any(e.kind in ("agg", "lenstore") for e in evs):
            continue
        ret = b.return_expr()
        r0 = mir.strip_casts(ret)
        while r0[0] == "agg" and r0[1] in ("Result", "Option") and r0[3]:      # Ok(x)
            r0 = mir.strip_casts(r0[3][0])
        if not (r0[0] == "var" and len(r0) > 2):
            continue
        touched = [e for e in evs if e.kind == "mcall" and e.obj == r0]
        if not touched:
            continue
        key = "%s|LENFLOW" % b.key
        src = ("param", b.local_name(1))
        want = ("field", src, "length")
        init = b.init_expr(r0[2])
        fd = b.full_defs(r0[2])
        if init is None or len(fd) != 1 or b.loops():
            res.append((b, key, "undecided", "the result `%s` is not built by a single initial value followed by straight-line edits" % r0[1]))
            continue
        L0 = length_of_value(crate, b, init)
        if L0 is None:
            res.append((b, key, "undecided", "length of the initial value `%s` is not known" % show(init)[:80]))
            continue
        start = fd[0][2]
        verdicts = []
        for path in _paths(b, start):
            edges = set(zip(path, path[1:]))
            rels = []
            for sb, cond, ts, fs in guard.cond_edges(b):
                if (sb, ts) in edges and ts != fs:
                    rels += guard.relations_on_edge(cond, True)[:1]
                elif (sb, fs) in edges and ts != fs:
                    rels += guard.relations_on_edge(cond, False)[:1]
            L = L0
            unknown = None
            for e in sorted([e for e in touched if e.loc[0] in path], key=lambda e: (path.index(e.loc[0]), e.loc[1])):
                a = e.args
                if e.name == "resize" and len(a) >= 2:
                    L = a[1]
                elif e.name == "truncate" and len(a) >= 2:
                    L = ("call", "min", None, (L, a[1]), ())
                elif e.name == "push":
                    L = ("bin", "Add", L, ("int", 1))
                elif e.name == "pop":
                    L = ("bin", "Sub", L, ("int", 1))
                elif e.name in ("append", "prepend") and len(a) >= 2:
                    al = length_of_value(crate, b, a[1])
                    if al is None:
                        unknown = e.name
                    else:
                        L = ("bin", "Add", L, al)
                elif e.name in ("set", "set_int", "shl_assign", "shr_assign", "mod2n", "reserve", "shrink_to_fit"):
                    pass
                else:
                    unknown = e.name
            if unknown:
                verdicts.append(("undecided", "length effect of %s() on the result is not modelled" % unknown))
                continue
            got, exp = canon(crate, L), canon(crate, want)
            crels = [(op, canon(crate, l), canon(crate, r)) for op, l, r in rels]
            if mir.lin_eq(got, exp):
                verdicts.append(("pass", "length %s" % show(got)[:40]))
                continue
            cm = counter_model(got, exp, crels)
            cond_txt = " and ".join("%s %s %s" % (show(l)[:40], mir.SYM.get(op, op), show(r)[:20]) for op, l, r in crels) or "no condition"
            if cm == "too-many" or cm is None:
                verdicts.append(("undecided", "on the path under [%s] the result has length `%s`; equality with the source's length is neither "
                                 "proved nor refuted" % (cond_txt, show(got)[:80])))
            else:
                env, g, w = cm
                verdicts.append(("violation", "on the path under [%s] the result keeps length `%s`, which is not the source's length: e.g. with %s "
                                 "it is %d instead of %d" % (cond_txt, show(got)[:90], ", ".join("%s = %d" % (show(k)[:24], v) for k, v in env.items()), g, w)))
        worst = "violation" if any(v == "violation" for v, _ in verdicts) else "undecided" if any(v == "undecided" for v, _ in verdicts) else "pass"
        msgs = [m for v, m in verdicts if v == worst]
        res.append((b, key, worst, "; ".join(dict.fromkeys(msgs)) if worst != "pass" else "every path ends with the source's length (%d paths)" % len(verdicts)))
    return res


# ------------------------------------------------------------------------------------------------------------------
# split_off / split (trait defaults): lengths of the two halves on every path
# ------------------------------------------------------------------------------------------------------------------
LEN0 = ("param", "len0")


def _subst_len0(e, selfp):
    if not isinstance(e, tuple) or not e:
        return e
    if is_call(e, "len") and len(e[3]) == 1 and _strip_refs(e[3][0]) == selfp:
        return LEN0
    return tuple(_subst_len0(y, selfp) if isinstance(y, tuple) else y for y in e)


def split_lengths(crate):
    """BitVector::split_off(index) must leave `index` bits in self and return `len - index` bits; split(index) must return
    (high, low) with those lengths. Each acyclic path is interpreted over symbolic lengths (copy_range, resize, truncate,
    mem::replace, zeros, split_off) and compared with the expectation under the path's branch conditions and the
    precondition index <= len: linear equality proves a path, a small model refutes it, anything else is undecided."""
    res = []
    for b in crate.bodies:
        if b.trait_default_of != "BitVector" or b.name not in ("split_off", "split") or b.kind == "Closure":
            continue
        key = "%s|LENFLOW halves" % b.key
        selfp = ("param", b.local_name(1))
        index = ("param", b.local_name(2))
        if b.loops():
            res.append((b, key, "undecided", "contains a loop: lengths not interpreted"))
            continue
        verdicts = []
        for path in _paths(b, 0):
            edges = set(zip(path, path[1:]))
            rels = [("Le", index, LEN0)]
            for sb, cond, ts, fs in guard.cond_edges(b):
                if ts == fs:
                    continue
                if (sb, ts) in edges:
                    rels += [(op, _subst_len0(l, selfp), _subst_len0(r, selfp)) for op, l, r in guard.relations_on_edge(cond, True)[:1]]
                elif (sb, fs) in edges:
                    rels += [(op, _subst_len0(l, selfp), _subst_len0(r, selfp)) for op, l, r in guard.relations_on_edge(cond, False)[:1]]
            for sb, arms in guard.discr_edges(b):
                for s2, rel in arms:
                    if (sb, s2) in edges:
                        rels += [(op, _subst_len0(l, selfp), _subst_len0(r, selfp)) for op, l, r in guard.relations_on_edge(rel, True)[:1]]
            Ls = LEN0
            env = {}            # local id -> symbolic length of the vector it holds
            mutated = False
            unknown = None
            ret_high = ret_low = None

            def vec_len(o):
                if o["k"] in ("copy", "move") and not o["p"]["pr"]:
                    l = o["p"]["l"]
                    if l in env:
                        return env[l]
                    if b.is_param(l) and b.local_name(l) == selfp[1]:
                        return Ls
                return None

            for blk in path:
                for st in b.blocks[blk]["st"]:
                    if st["s"] != "assign" or st["p"]["pr"]:
                        continue
                    r = st["r"]
                    dl = st["p"]["l"]
                    if r["k"] == "use":
                        v = vec_len(r["o"])
                        if v is not None:
                            env[dl] = v
                    elif r["k"] == "agg" and r.get("ak") == "tuple" and dl == 0 and len(r["fs"]) == 2:
                        ret_high, ret_low = vec_len(r["fs"][0]), vec_len(r["fs"][1])
                t = b.term(blk)
                if t["t"] != "call" or t["f"]["k"] != "const" or "fn" not in t["f"]:
                    continue
                fn = t["f"]["fn"]
                name = fn["name"]
                args = [_subst_len0(b.e_operand(a), selfp) for a in t["args"]]
                dl = t["d"]["l"] if not t["d"]["pr"] else None
                on_self = bool(args) and _strip_refs(args[0]) == selfp
                if name == "len":
                    if on_self and mutated:
                        unknown = "len() read after self was edited"
                    continue
                if name == "copy_range" and on_self and len(args) == 2 and args[1][0] == "agg" and args[1][1] == "Range":
                    a0, b0 = args[1][3]
                    if dl is not None:
                        env[dl] = ("call", "saturating_sub", None, (b0, a0), ())
                elif name == "resize" and on_self and len(args) >= 2:
                    Ls, mutated = args[1], True
                elif name == "truncate" and on_self and len(args) == 2:
                    Ls, mutated = ("call", "min", None, (Ls, args[1]), ()), True
                elif name == "split_off" and on_self and len(args) == 2:
                    if dl is not None:
                        env[dl] = ("call", "saturating_sub", None, (Ls, args[1]), ())
                    Ls, mutated = ("call", "min", None, (Ls, args[1]), ()), True
                elif name in ("zeros", "ones") and len(args) == 1:
                    if dl is not None:
                        env[dl] = args[0]
                elif name == "with_capacity":
                    if dl is not None:
                        env[dl] = ("int", 0)
                elif name == "clone" and on_self:
                    if dl is not None:
                        env[dl] = Ls
                elif name == "replace" and len(t["args"]) == 2 and on_self:
                    v = vec_len(t["args"][1])
                    if v is None:
                        unknown = "mem::replace with a value of unknown length"
                    else:
                        if dl is not None:
                            env[dl] = Ls
                        Ls, mutated = v, True
                elif on_self and b.local_ty(t["args"][0]["p"]["l"]).lstrip().startswith("&") and " mut " in b.local_ty(t["args"][0]["p"]["l"])[:24] \
                        and name not in ("get", "is_empty", "capacity", "iter", "first", "last"):
                    unknown = "%s() edits self in a way this rule does not model" % name
                elif name in ("take",) and on_self:
                    unknown = "mem::take"
            if b.name == "split_off":
                ret_high, ret_low = env.get(0), Ls
            if unknown or ret_high is None or ret_low is None:
                verdicts.append(("undecided", unknown or "the returned value's length is not tracked on this path"))
                continue
            want_high, want_low = ("bin", "Sub", LEN0, index), index
            worst = "pass"
            for what, got, want in (("high part", ret_high, want_high), ("low part", ret_low, want_low)):
                got = canon(crate, got)
                if mir.lin_eq(got, want):
                    continue
                cm = counter_model(got, want, rels)
                ctxt = " and ".join("%s %s %s" % (show(l)[:24], mir.SYM.get(op, op), show(r)[:24]) for op, l, r in rels[1:]) or "no condition"
                if cm is None:
                    # no counter-example in the domain: equal for all searched values (min/saturating forms)
                    continue
                if cm == "too-many":
                    worst = "undecided" if worst == "pass" else worst
                    verdicts.append(("undecided", "on the path under [%s] the %s has length `%s`: not decided" % (ctxt, what, show(got)[:60])))
                    continue
                env2, g, w = cm
                worst = "violation"
                verdicts.append(("violation", "on the path under [%s] the %s has %s bits where %s are expected, e.g. with %s it has %d instead of %d"
                                 % (ctxt, what, show(got)[:50].replace("len0", "len"), show(want)[:30].replace("len0", "len"),
                                    ", ".join("%s = %d" % (show(k)[:16].replace("len0", "len"), v) for k, v in env2.items()), g, w)))
            if worst == "pass":
                verdicts.append(("pass", ""))
        worst = "violation" if any(v == "violation" for v, _ in verdicts) else "undecided" if any(v == "undecided" for v, _ in verdicts) else "pass"
        msgs = [m for v, m in verdicts if v == worst and m]
        res.append((b, key, worst, "; ".join(dict.fromkeys(msgs)) if worst != "pass" else
                    "on each of %d paths: the returned high part has len - index bits and self keeps index bits" % len(verdicts)))
    return res
