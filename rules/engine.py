"""Run context, reports, evidence and known-findings handling (DESIGN §8, §9)."""
import json
import os
import time

from . import extract, mir

VERIF = extract.VERIF
EVIDENCE_DIR = os.path.join(VERIF, "evidence")
VIOL_DIR = os.path.join(EVIDENCE_DIR, "violations")
KNOWN = os.path.join(VERIF, "known_findings.json")

ASSUMPTIONS = [
    "facts are the compiler's built MIR (phase Built) for target x86_64-unknown-linux-gnu, little-endian, usize = u64, Bvp = Bv128",
    "rustc nightly 1.97 MIR construction is trusted to represent the source faithfully",
    "rule instances cover polymorphic MIR: one instance stands for all I, N instantiations",
    "16/32-bit Bvp aliases and big-endian targets are not analysed (no std for them in the sandbox; utils.rs rejects big-endian)",
]


class Ctx:
    """Lazily extracted crates for each configuration of one repository tree."""

    def __init__(self, repo="/repo"):
        self.repo = repo
        self._crates = {}
        self._memo = {}

    def crate(self, config="dbg"):
        if config not in self._crates:
            self._crates[config] = mir.Crate(extract.load(self.repo, config), config)
        return self._crates[config]

    def memo(self, key, fn):
        if key not in self._memo:
            self._memo[key] = fn()
        return self._memo[key]


class Report:
    def __init__(self, pid, tier):
        self.pid = pid
        self.tier = tier
        self.t0 = time.time()
        self.instances = []     # dicts: rule, key, verdict ('pass'|'violation'|'undecided'|'trusted'), msg, where
        self.analysed = {}      # name -> count / list  (what was looked at)
        self.notes = []
        self.trusted = []       # table entries relied upon
        self.not_decided = []

    # -- recording -------------------------------------------------------------
    def ok(self, rule, key, msg="", where="", nontrivial=True, **kw):
        self.instances.append(dict(rule=rule, key=key, verdict="pass", msg=msg, where=where,
                                   nontrivial=nontrivial, **kw))

    def violation(self, rule, key, msg, where="", **kw):
        kw.pop("nontrivial", None)
        self.instances.append(dict(rule=rule, key=key, verdict="violation", msg=msg, where=where,
                                   nontrivial=True, **kw))

    def undecided(self, rule, key, msg, where="", **kw):
        self.instances.append(dict(rule=rule, key=key, verdict="undecided", msg=msg, where=where,
                                   nontrivial=False, **kw))

    def trust(self, rule, key, reason):
        self.trusted.append("%s: %s -- %s" % (rule, key, reason))
        self.instances.append(dict(rule=rule, key=key, verdict="trusted", msg=reason, where="", nontrivial=False))

    def count(self, name, n):
        self.analysed[name] = n

    def floor(self, name, actual, minimum, need=None):
        """fail closed when fewer anchors than were confirmed by hand are found"""
        self.analysed[name] = actual
        # `minimum` is the number counted on the reviewed tree. Site counts move a little under behaviour-preserving
        # edits (a checked `len - 1` becomes `checked_sub`, two loops are merged, an idiom is spelled differently), so
        # counts above 3 may lose up to a fifth before the rule is considered to have lost its subject; small counts
        # (one per implementation) are exact.
        # `need` overrides the threshold for obligations that exist only where the code performs a particular
        # operation (rewriting one implementation's kernel legitimately removes all of its sites).
        if need is None:
            need = minimum if minimum <= 3 else (minimum * 4) // 5
        if actual < need:
            self.violation("ANCHOR-MISSING", name,
                           "found %d %s, expected at least %d (%d counted on the reviewed tree): the rule would pass vacuously"
                           % (actual, name, need, minimum))
        else:
            self.ok("FLOOR", name, "%d >= %d (counted: %d)" % (actual, need, minimum), nontrivial=False)

    def extend(self, other_instances):
        self.instances.extend(other_instances)

    def violations(self):
        return [i for i in self.instances if i["verdict"] == "violation"]


def load_known():
    if not os.path.exists(KNOWN):
        return {"findings": [], "fixed": []}
    with open(KNOWN) as fh:
        return json.load(fh)


def vkey(pid, inst):
    return "%s|%s|%s" % (pid, inst["rule"], inst["key"])


def finish(rep, explanation, rule_text, checker_cmd, seed=0, write=True):
    """Print verdict lines, write evidence + replay files, return exit code."""
    known = load_known()
    known_keys = {"%s|%s|%s" % (f["property"], f["rule"], f["key"]): f for f in known.get("findings", [])}
    viols = rep.violations()
    new, listed = [], []
    for v in viols:
        k = vkey(rep.pid, v)
        if k in known_keys:
            listed.append((v, known_keys[k]))
        else:
            new.append(v)
    viol_dir = VIOL_DIR if write else os.path.join(extract.CACHE, "scratch-violations")
    os.makedirs(viol_dir, exist_ok=True)
    # remove stale replay files of this property
    for f in os.listdir(viol_dir):
        if f.startswith(rep.pid + "-"):
            os.remove(os.path.join(viol_dir, f))
    for v, f in listed:
        print("KNOWN-FINDING: property=%s %s [%s] %s" % (rep.pid, f.get("what", v["msg"]), v["rule"], v["key"]))
    for n, v in enumerate(new, 1):
        path = os.path.join(os.path.relpath(viol_dir, VERIF), "%s-%d.json" % (rep.pid, n))
        with open(os.path.join(VERIF, path), "w") as fh:
            json.dump(dict(property=rep.pid, rule=v["rule"], key=v["key"], msg=v["msg"], where=v.get("where", ""),
                           detail={k: v[k] for k in v if k not in ("rule", "key", "msg", "where", "verdict", "nontrivial")}),
                      fh, indent=1, default=str)
        print("VIOLATION property=%s replay=%s" % (rep.pid, path))
        print("  rule=%s instance=%s" % (v["rule"], v["key"]))
        if v.get("where"):
            print("  at %s" % v["where"])
        print("  %s" % v["msg"])
    decided = [i for i in rep.instances if i["verdict"] in ("pass", "violation")]
    passes = [i for i in rep.instances if i["verdict"] == "pass"]
    und = [i for i in rep.instances if i["verdict"] == "undecided"]
    nontriv_keys = {(i["rule"], i["key"]) for i in decided if i.get("nontrivial")}
    samples = []
    seen_rules = set()
    for i in rep.instances:
        if i["rule"] not in seen_rules and i["verdict"] in ("pass", "violation") and i.get("nontrivial"):
            seen_rules.add(i["rule"])
            samples.append({k: i[k] for k in ("rule", "key", "verdict", "msg", "where") if i.get(k)})
    for i in viols[:10]:
        samples.append({k: i[k] for k in ("rule", "key", "verdict", "msg", "where") if i.get(k)})
    per_rule = {}
    for i in rep.instances:
        d = per_rule.setdefault(i["rule"], {"pass": 0, "violation": 0, "undecided": 0, "trusted": 0})
        d[i["verdict"]] += 1
    ev = {
        "property_id": rep.pid,
        "tier": rep.tier,
        "seed": seed,
        "level": "other",
        "coverage": {
            "explanation": explanation,
            "rule": rule_text,
            "evaluations": len(decided),
            "distinct_nontrivial": len(nontriv_keys),
            "obligations": len(decided) + len(und),
            "discharged": len(passes),
            "samples": samples[:40],
            "per_rule": per_rule,
            "analysed": rep.analysed,
            "undecided": [dict(rule=i["rule"], key=i["key"], msg=i["msg"]) for i in und][:60],
            "not_decided_clauses": rep.not_decided,
            "known_findings_reported": [vkey(rep.pid, v) for v, _ in listed],
            "checker_cmd": checker_cmd,
            "trusted_base": ["rustc nightly MIR construction (mir_built)", "bva-facts driver serialisation",
                             "rules/*.py rule engine"] + rep.trusted,
            "exhaustive": False,
            "notes": rep.notes,
        },
        "assumptions": ASSUMPTIONS,
        "wall_s": round(time.time() - rep.t0, 3),
        "violations": len(new),
    }
    if write:
        os.makedirs(EVIDENCE_DIR, exist_ok=True)
        with open(os.path.join(EVIDENCE_DIR, rep.pid + ".json"), "w") as fh:
            json.dump(ev, fh, indent=1, default=str)
    print("%s: %d rule instances decided (%d pass, %d violation [%d known], %d undecided, %d trusted table entries) in %.1fs"
          % (rep.pid, len(decided), len(passes), len(viols), len(listed), len(und), len(rep.trusted), time.time() - rep.t0))
    return 1 if new else 0
