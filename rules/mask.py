"""MASK: raw-writer discipline (canonical padding), shrink rule, USED-words discipline.
See DESIGN §4 MASK / USED. Every function that can write storage words is put in exactly one
writer class and must satisfy that class's local rule; anything else is `unclassified`.
"""
import re

from . import mir, storage
from .mir import show, is_call, is_bin, walk, strip_casts

BU_NAMES = ("BIT_UNIT",)


def is_bu(e):
    """the bit width of a storage word: Self::BIT_UNIT, W::BITS (also `u64::BITS as usize`) or `size_of::<W>() * 8`"""
    e = strip_casts(e)
    if e[0] == "assoc" and e[1] in BU_NAMES + ("BITS",):
        return True
    if is_bin(e, "Mul"):
        for x, y in ((e[2], e[3]), (e[3], e[2])):
            if is_call(x, "size_of") and not x[3] and y == ("int", 8):
                return True
    return False


def match_mask_call(e):
    """mask(w) -> w"""
    if is_call(e, "mask") and len(e[3]) == 1:
        return e[3][0]
    return None


def split_div_bu(e):
    """L / BIT_UNIT -> L"""
    if is_bin(e, "Div") and is_bu(e[3]):
        return e[2]
    return None


def split_rem_bu(e):
    if is_bin(e, "Rem") and is_bu(e[3]):
        return e[2]
    return None


def split_lastbit(e):
    """(wrapping_sub(L,1) % BU) + 1  or ((L - 1) % BU) + 1 -> L"""
    if is_bin(e, "Add") and e[3] == ("int", 1):
        r = split_rem_bu(e[2])
        if r is not None:
            if is_call(r, "wrapping_sub") and len(r[3]) == 2 and r[3][1] == ("int", 1):
                return r[3][0]
            if is_bin(r, "Sub") and r[3] == ("int", 1):
                return r[2]
    return None


def cap_arg(e):
    """capacity_from_bit_len(L) -> L"""
    if is_call(e, "capacity_from_bit_len") and len(e[3]) == 1:
        return e[3][0]
    return None


def vec_alloc_len(e):
    """collect(take(repeat(x), capacity_from_bit_len(L))) -> (x, L)  (also through into_boxed_slice)"""
    e = strip_casts(e)
    if is_call(e, "into_boxed_slice") and e[3]:
        e = e[3][0]
    if is_call(e, "collect") and e[3]:
        t = e[3][0]
        if is_call(t, "take") and len(t[3]) == 2 and is_call(t[3][0], "repeat"):
            return t[3][0][3][0], t[3][1]
    return None


class MaskEvent:
    def __init__(self, loc, obj, form, L, detail):
        self.loc, self.obj, self.form, self.L, self.detail = loc, obj, form, L, detail


def obj_eq(a, b):
    return a == b


def len_exprs_of(b, obj, evs):
    """expressions that denote the length `obj` has when the function returns"""
    out = [("field", obj, "length"), ("call", "len", None, (obj,))]
    for e in evs:
        if e.kind == "lenstore" and obj_eq(e.obj, obj):
            out.append(e.value)
        if e.kind == "agg":
            # the aggregate assigned to obj (local) or whose data is the carrier obj
            if e.data == obj or (is_call(e.data, "into_boxed_slice") and e.data[3][0] == obj):
                out.append(e.length)
    if obj[0] == "var":
        init = b.init_expr(obj[2])
        if init is not None:
            if init[0] == "agg" and init[1].split("<")[0] in ("Bvf", "Bvd") and len(init[3]) == 2:
                out.append(init[3][1])
            if is_call(init, ("zeros", "ones")) and init[3]:
                out.append(init[3][-1])
    return out


def same_len(L, cands):
    for c in cands:
        if c == L:
            return True
        if c[0] == "call" and c[1] == "len" and L[0] == "call" and L[1] == "len" and c[3] == L[3]:
            return True
    return False


def find_mask_events(b, evs):
    """canonicalising events in body b"""
    out = []
    for e in evs:
        if e.kind == "mcall" and e.name == "mod2n" and len(e.args) == 2:
            out.append(MaskEvent(e.loc, e.args[0], "mod2n", e.args[1], "mod2n(%s, %s)" % (show(e.args[0]), show(e.args[1]))))
    ptrs = [e for e in evs if e.kind == "ptr" and e.via and e.via[-1] in ("get_mut", "last_mut")]
    writes = [e for e in evs if e.kind == "write"]
    # the canonicaliser written out (or spliced in from a helper that took its place): for every word i of the storage,
    # `data[i] &= mask(min(n - min(n, i * BU), BU))` - a truncation of the whole object to n bits, like mod2n(obj, n)
    for w in writes:
        if w.how != "call:bitand_assign" or len(w.value) != 1 or w.index is None or w.index[0] != "iv":
            continue
        width = match_mask_call(w.value[0])
        if width is None or not is_call(width, "min") or len(width[3]) != 2:
            continue
        n = None
        for x, y in ((width[3][0], width[3][1]), (width[3][1], width[3][0])):
            if is_bu(y) and is_call(x, "saturating_sub") and len(x[3]) == 2 and is_bin(x[3][1], "Mul") \
                    and any(a == w.index and is_bu(c) for a, c in ((x[3][1][2], x[3][1][3]), (x[3][1][3], x[3][1][2]))):
                n = x[3][0]
        if n is None:
            continue
        src = b.iter_source(w.index[1])
        whole = src[0] == "agg" and src[1].startswith("Range") and len(src[3]) == 2 and src[3][0] == ("int", 0) and (
            src[3][1][:1] == ("cparam",) or (is_call(src[3][1], "len") and len(src[3][1][3]) == 1
                                             and (strip_casts(src[3][1][3][0]) == ("field", w.obj, "data") or strip_casts(src[3][1][3][0]) == w.obj)))
        if whole:
            out.append(MaskEvent(w.loc, w.obj, "mod2n", n, "every word i of %s &= mask(min(%s - min(%s, i * BU), BU))" % (show(w.obj), show(n), show(n))))
            w.is_mask = True
    for p in ptrs:
        for w in writes:
            if not any(x == p.call for x in walk(w.target)):
                continue
            width = None
            if w.how == "call:bitand_assign" and len(w.value) == 1:
                width = match_mask_call(w.value[0])
            elif w.how == "assign" and is_bin(w.value, "BitAnd"):
                for side, other in ((w.value[2], w.value[3]), (w.value[3], w.value[2])):
                    if any(x == p.call for x in walk(side)):
                        width = match_mask_call(other)
            if width is None:
                continue
            if p.via[-1] == "get_mut":
                idx = p.call[3][1]
                Li = split_div_bu(idx)
                Lw = split_rem_bu(width)
                Lb = split_lastbit(width)
                if Li is not None and Lw is not None and Li == Lw:
                    out.append(MaskEvent(p.loc, p.obj, "b1", Li, "get_mut(%s / BU) &= mask(%s %% BU)" % (show(Li), show(Li))))
                elif Li is not None and Lb is not None and Li == Lb:
                    out.append(MaskEvent(p.loc, p.obj, "b3", Li, "get_mut(%s / BU) &= mask(lastbit(%s))" % (show(Li), show(Li))))
                else:
                    # both sides readable but about different lengths: a contradiction; one side unreadable: a spelling
                    # this rule does not know
                    readable = Li is not None and (Lw is not None or Lb is not None)
                    if Li is None and (Lw is not None or Lb is not None) and is_call(idx, "min") and any(split_div_bu(a) is not None for a in idx[3]):
                        # the index is clamped (`min(L / BU, k)`) but the width is still the one of word L / BU: whenever the
                        # clamp takes effect the mask is applied to a word it was not computed for
                        readable = True
                    out.append(MaskEvent(p.loc, p.obj, "bad-get_mut" if not readable else "badx-get_mut", None,
                                         "get_mut(%s) &= mask(%s): index and width do not describe the same length"
                                         % (show(idx), show(width))))
            else:
                Lb = split_lastbit(width)
                out.append(MaskEvent(p.loc, p.obj, "b2" if Lb is not None else "bad-last_mut", Lb,
                                     "last_mut() &= mask(%s)" % show(width)))
            w.is_mask = True
    # guarded direct form:  if L / BU < data.len() { data[L / BU] &= mask(L % BU) }
    from . import guard
    for w in writes:
        if getattr(w, "is_mask", False) or w.index is None or w.via:
            continue
        width = None
        if w.how == "call:bitand_assign" and len(w.value) == 1:
            width = match_mask_call(w.value[0])
        elif w.how == "assign" and is_bin(w.value, "BitAnd"):
            for side, other in ((w.value[2], w.value[3]), (w.value[3], w.value[2])):
                if side == w.target:
                    width = match_mask_call(other)
        if width is None:
            continue
        Li, Lw = split_div_bu(w.index), split_rem_bu(width)
        if Li is None or Lw is None or Li != Lw:
            continue
        for sb, cond, taken, succ, other in guard.edges_dominating(b, w.loc[0]):
            for op, l, r in guard.relations_on_edge(cond, taken):
                if op == "Lt" and l == w.index and is_call(r, "len"):
                    out.append(MaskEvent((sb, len(b.blocks[sb]["st"])), w.obj, "b1", Li,
                                         "if %s / BU < len { data[%s / BU] &= mask(%s %% BU) }" % (show(Li), show(Li), show(Li))))
                    w.is_mask = True
        if not getattr(w, "is_mask", False):
            # unguarded direct form `data[L / BU] &= mask(L % BU)`: the indexing is bounds-checked (it panics rather than
            # skipping the truncation), so where it executes it is a truncation to L
            out.append(MaskEvent(w.loc, w.obj, "b1", Li, "data[%s / BU] &= mask(%s %% BU)" % (show(Li), show(Li))))
            w.is_mask = True
    for e in evs:
        if e.kind == "mcall" and e.name == "mod2n":
            e.is_mask = True
        if e.kind == "maskimport":
            # truncation performed inside a helper introduced after the review (storage._inline_helper); the helper's
            # own ptr/write events are spliced in as well, so most forms are re-detected above: keep the rest
            if not any(m.loc == e.loc and m.obj == e.obj and m.form == e.form and m.L == e.L for m in out):
                out.append(MaskEvent(e.loc, e.obj, e.form, e.L, e.detail))
    return out


# ---------------------------------------------------------------------------------
# K5 table: writers bounded by a value-level argument (trusted, one line of reason each)
# key: (self family or '*', trait or None, fn name)
# ---------------------------------------------------------------------------------
K5 = {
    ("Bvf", "BitVector", "set"): "one bit at index < len (precondition, debug-asserted)",
    ("Bvd", "BitVector", "set"): "one bit at index < len (precondition, debug-asserted)",
    ("Bvf", "BitVector", "from_binary"): "exactly chars(s) digit-bits are shifted into zeroed words, top word gets len % BU of them",
    ("Bvd", "BitVector", "from_binary"): "exactly chars(s) digit-bits are shifted into zeroed words",
    ("Bvf", "BitVector", "from_hex"): "exactly 4*chars(s) bits are shifted into zeroed words",
    ("Bvd", "BitVector", "from_hex"): "exactly 4*chars(s) bits are shifted into zeroed words",
    ("Bvf", "BitVector", "from_bytes"): "exactly 8*len(bytes) bits are shifted into zeroed words",
    ("Bvd", "BitVector", "from_bytes"): "exactly 8*len(bytes) bits are shifted into zeroed words",
    ("Bvf", "BitVector", "shl_in"): "whole words below len shifted; top word written through `& mask(len % BU)` (checked)",
    ("Bvd", "BitVector", "shl_in"): "whole words below len shifted; top word written through `& mask(len % BU)` (checked)",
    ("Bvf", "BitVector", "shr_in"): "right shift cannot set a bit above len-1; carry-in placed at bit len-1",
    ("Bvd", "BitVector", "shr_in"): "right shift cannot set a bit above len-1; carry-in placed at bit len-1",
    ("Bvf", "BitVector", "rotl"): "fresh zero storage (checked), chunks `& mask(l)` placed below len",
    ("Bvd", "BitVector", "rotl"): "fresh zero storage (checked), chunks `& mask(l)` placed below len",
    ("Bvf", "BitVector", "rotr"): "fresh zero storage (checked), chunks `& mask(l)` placed below len",
    ("Bvd", "BitVector", "rotr"): "fresh zero storage (checked), chunks `& mask(l)` placed below len",
    ("Bvf", "ShlAssign", "shl_assign"): "chunk moves inside 0..len: cleared with !(mask(l) << i), or-ed with (chunk & mask(l)) << i",
    ("Bvd", "ShlAssign", "shl_assign"): "chunk moves inside 0..len",
    ("Bvf", "ShrAssign", "shr_assign"): "chunk moves inside 0..len",
    ("Bvd", "ShrAssign", "shr_assign"): "chunk moves inside 0..len",
    ("Bvd", "Shl", "shl"): "fresh zero storage (checked) of cap(len) words, chunks `& mask(l)` placed below len",
    ("Bvd", "Shr", "shr"): "fresh zero storage (checked) of cap(len) words, chunks `& mask(l)` placed below len",
    ("Bvf", "TryFrom", "try_from:uint"): "integer cast zero-extends; over-wide values rejected by the leading_zeros guard",
    ("Bvd", "From", "from:uint"): "words come from the integer's own bytes, length = BITS",
    ("Bvf", "BitVector", "append"): "writes go through the length-masked set_int after resize (checked: no raw write)",
    ("Bvd", "BitVector", "append"): "masked-accessor source placed below the new length after resize(zero fill)",
    ("Bvf", "BitVector", "prepend"): "writes go through the length-masked set_int (checked: no raw write)",
    ("Bvd", "BitVector", "prepend"): "masked-accessor source placed below the new length",
    ("Bvd", None, "reserve"): "verbatim copy of all old words into larger zeroed storage (checked)",
    ("Bvd", None, "shrink_to_fit"): "verbatim copy of the first cap(len) words (checked)",
}


def writer_kind_key(b):
    fam = b.self_family
    name = b.name
    if b.trait in ("TryFrom", "From") and b.trait_args:
        if mir.ty_family(b.trait_args[0]) == "uint":
            name = "%s:uint" % b.name
    return (fam, b.trait, name)


class Writer:
    def __init__(self, body, klass, ok, msg, detail=None):
        self.body, self.klass, self.ok, self.msg, self.detail = body, klass, ok, msg, detail or {}


def classify(crate):
    """classify every storage writer; returns list of Writer"""
    out = []
    for b in crate.bodies:
        if storage.judged_through_callers(b):
            # a helper that did not exist on the reviewed tree is judged where it is used: its events are spliced into
            # every caller (storage._inline_helper), which is where the length it must truncate to is known
            continue
        evs = storage.events(b)
        rel = [e for e in evs if e.kind in ("write", "agg", "datastore", "lenstore")]
        if not rel:
            continue
        out.append(classify_one(crate, b, evs))
    return out


def _closure_exprs(crate, b, e):
    """bodies of closures mentioned in e"""
    res = []
    for x in walk(e):
        if isinstance(x, tuple) and x and x[0] == "closure":
            cb = crate.body(x[1])
            if cb is not None:
                res.append(cb)
    return res


def classify_one(crate, b, evs):
    # a thin wrapper around a helper introduced after the review: every storage event comes from that one helper, whose
    # locals the events refer to - classify the helper's own body (with its parameters already bound at the call site)
    origins = {getattr(e, "inlined_from", None) for e in evs if e.kind in ("write", "agg", "datastore", "lenstore")}
    if len(origins) == 1 and None not in origins and writer_kind_key(b) not in K5:
        hs = [h for h in crate.bodies if h.key == list(origins)[0] and h.kind != "Closure"]
        if len(hs) == 1 and hs[0] is not b:
            hw = classify_one(crate, hs[0], storage.events(hs[0]))
            return Writer(b, hw.klass, hw.ok, "%s [through the helper %s]" % (hw.msg, hs[0].key), hw.detail)
    writes = [e for e in evs if e.kind == "write"]
    aggs = [e for e in evs if e.kind == "agg"]
    dstores = [e for e in evs if e.kind == "datastore"]
    lens = [e for e in evs if e.kind == "lenstore"]
    masks = find_mask_events(b, evs)
    fam = b.self_family

    # ---- verbatim copies: derived Clone, From<&Bvd> for Bvd, into_inner/new ------------
    if not writes and not dstores and not lens and len(aggs) == 1:
        a = aggs[0]
        d = a.data
        # copy of another vector's fields
        src = None
        if is_call(d, "clone") and d[3] and d[3][0][0] == "field" and d[3][0][2] == "data":
            src = d[3][0][1]
        elif d[0] == "field" and d[2] == "data":
            src = d[1]
        if src is not None:
            L = a.length
            if is_call(L, "clone") and L[3]:
                L = L[3][0]
            if L in (("field", src, "length"),) or (is_call(L, "len") and L[3] == (src,)):
                return Writer(b, "COPY", True, "field-wise copy of %s" % show(src))
            return Writer(b, "COPY", False, "copies the words of %s but stores length %s" % (show(src), show(a.length)))
        # copy of the used words only: x.data[..cap(x.length)].into() / to_vec(): equal in value under the invariant
        for x in walk(d):
            if is_call(x, ("index",)) and len(x[3]) == 2 and x[3][0][0] == "field" and x[3][0][2] == "data":
                srcv = x[3][0][1]
                rng = x[3][1]
                hi = rng[3][-1] if rng[0] == "agg" and rng[3] else None
                if hi is not None and cap_arg(hi) == ("field", srcv, "length") and (
                        rng[1].startswith("RangeTo") or (rng[1].startswith("Range") and rng[3][0] == ("int", 0))):
                    L = a.length
                    if L == ("field", srcv, "length") or (is_call(L, "len") and L[3] == (srcv,)):
                        return Writer(b, "COPY", True, "copy of the used words of %s (cap(len) words) with its length" % show(srcv))
        if d[0] == "param" and a.length[0] == "param":
            return Writer(b, "CTOR", False,
                          "trusted constructor: stores caller-supplied words without masking them to `length`",
                          dict(finding="unmasked-caller-data"))
        if storage.is_zero_data(d):
            return Writer(b, "K3", True, "zero-only aggregate, length %s" % show(a.length))

    # ---- K0 canonicaliser --------------------------------------------------------------
    if b.name == "mod2n" or (writes and all(w.how == "call:bitand_assign" for w in writes) and not aggs and not lens
                             and b.vis.startswith("Restricted") and b.arg_count == 2 and not masks):
        ok, msg = check_k0(b, writes)
        if ok or b.name == "mod2n":
            return Writer(b, "K0", ok, msg)

    # ---- K2 set_int ------------------------------------------------------------------------
    if b.name == "set_int" and b.trait == "IArrayMut" and fam in ("Bvf", "Bvd"):
        return check_k2(b, writes)

    # ---- K4 and-only -----------------------------------------------------------------------
    if writes and not aggs and not dstores and not lens and all(_and_only(w) for w in writes):
        mc = [e for e in evs if e.kind == "mcall" and e.name != "mod2n"]
        if not mc:
            return Writer(b, "K4", True, "and-only: %d raw writes, each `&=` (cannot set a bit)" % len(writes))

    # ---- K6 masked-source copy ----------------------------------------------------------------
    k6 = check_k6(crate, b, writes, aggs, lens, dstores)
    if k6 is not None:
        return k6

    # ---- REALLOC: verbatim copy of the old words into fresh zeroed storage that replaces self.data ----
    ra = check_realloc(b, writes, aggs, dstores, lens)
    if ra is not None:
        return ra

    # ---- K5 table --------------------------------------------------------------------------------
    kk = writer_kind_key(b)
    if kk in K5:
        ok, msg = check_k5_conjuncts(crate, b, kk, evs, writes, aggs, dstores, lens)
        if ok is False:
            helpers = sorted({crate.new_helper(fn).name for bb, t, fn in b.iter_calls() if crate.new_helper(fn) is not None})
            if helpers:
                # the table entry describes the reviewed idiom; the work now happens in helper(s) introduced later
                ok, msg = None, "%s - the writes moved into the helper(s) %s, whose idiom the table entry does not describe: not decided" % (msg, ", ".join(helpers))
        return Writer(b, "K5", ok, (K5[kk] if ok else msg), dict(table_key="%s/%s/%s" % kk))

    # ---- length-only writers (push / pop): no raw write, only a LenStore -------------------------
    if not writes and not aggs and not dstores and lens:
        return Writer(b, "LEN", True, "no raw write; length stores: %s" % ", ".join(show(l.value) for l in lens))

    # ---- K1 masked-end ---------------------------------------------------------------------------
    return check_k1(crate, b, evs, writes, aggs, dstores, lens, masks)


def _and_only(w):
    if getattr(w, "is_mask", False):
        return True
    if w.how == "call:bitand_assign":
        return True
    if w.how == "assign" and is_bin(w.value, "BitAnd"):
        # x = x & y with x the same place
        return w.value[2] == w.target or w.value[3] == w.target or any(
            x == w.target for x in (w.value[2], w.value[3]))
    return False


def check_k0(b, writes):
    if not writes:
        return False, "canonicaliser writes nothing"
    for w in writes:
        if w.how != "call:bitand_assign":
            return False, "canonicaliser performs a non-`&=` write: %s" % w.how
        if w.index is None or w.index[0] != "iv":
            return False, "canonicaliser write is not indexed by a loop variable"
        src = b.iter_source(w.index[1])
        if not (src[0] == "agg" and src[1].startswith("Range") and src[3][0] == ("int", 0) and src[3][1] == ("cparam", "N")):
            return False, "canonicaliser loop is not over all words 0..N (is %s)" % show(src)
        width = match_mask_call(w.value[0])
        if width is None:
            return False, "canonicaliser and-s with something that is not mask(..)"
        n = ("param", b.local_name(2))
        if not mir.contains(width, lambda x: x == n) or not mir.contains(width, lambda x: x == w.index):
            return False, "mask width %s does not depend on both the bit count and the word index" % show(width)
        # the exact per-word width:  min(n - min(n, i*BU), BU)
        want = ("call", "min", None, (("call", "saturating_sub", None, (n, ("bin", "Mul", w.index, "BU"))), "BU"))
        if not _match_shape(width, want):
            return False, "mask width %s is not min(n - min(n, i*BIT_UNIT), BIT_UNIT)" % show(width)
    return True, "and-assigns mask(min(n - min(n, i*BU), BU)) to every word i in 0..N"


def _match_shape(e, pat):
    """structural match ignoring the `qual` slot of calls; 'BU' matches the BIT_UNIT constant"""
    if pat == "BU":
        return is_bu(e)
    if not isinstance(pat, tuple) or not isinstance(e, tuple):
        return e == pat
    if pat[0] == "call":
        if e[0] != "call" or e[1] != pat[1] or len(e[3]) != len(pat[3]):
            return False
        if all(_match_shape(a, p) for a, p in zip(e[3], pat[3])):
            return True
        if pat[1] in ("min", "max") and len(pat[3]) == 2:
            return _match_shape(e[3][1], pat[3][0]) and _match_shape(e[3][0], pat[3][1])
        return False
    if pat[0] == "bin":
        if e[0] != "bin" or e[1] != pat[1]:
            return False
        if _match_shape(e[2], pat[2]) and _match_shape(e[3], pat[3]):
            return True
        if pat[1] in ("Add", "Mul", "BitAnd", "BitOr", "BitXor"):
            return _match_shape(e[3], pat[2]) and _match_shape(e[2], pat[3])
        return False
    return e == pat


def check_k2(b, writes):
    if len(writes) != 1 or not writes[0].how.startswith("call:set_int"):
        return Writer(b, "K2", False, "set_int must perform exactly one slice-level set_int")
    from . import defs
    v, why = defs.accessor(b.crate, b, "set_int")
    if v == "undecided":
        return Writer(b, "K2", None, why)
    if v == "violation":
        return Writer(b, "K2", False, why)
    return Writer(b, "K2", True, "stores v & mask(self.length - idx*BITS) under idx*BITS < self.length")


def _masked_source(e):
    """e reads a word through the vector-level (length-masked) accessor: unwrap(get_int(src, i)) etc. -> src"""
    e = strip_casts(e)
    if is_call(e, ("unwrap", "unwrap_or")) and e[3] and is_call(e[3][0], "get_int"):
        return e[3][0][3][0], e[3][0][3][1]
    if e[0] == "field" and e[2] == "0" and e[1][0] == "variant" and is_call(e[1][1], "get_int"):
        return e[1][1][3][0], e[1][1][3][1]
    return None


def check_k6(crate, b, writes, aggs, lens, dstores):
    if len(aggs) != 1 or lens or dstores:
        return None
    a = aggs[0]
    srcs = set()
    if writes and all(w.how == "call:push" for w in writes):
        # let mut v = Vec::with_capacity(n); for i in 0..int_len(src) { v.push(get_int(src, i).unwrap()) }: the k-th push
        # is word k, so the pushed word must be the masked source word at the loop index of a 0..int_len(src) loop
        for w in writes:
            if not w.value:
                return None
            ms = _masked_source(w.value[0])
            if ms is None or ms[1][0] != "iv":
                return None
            rng = b.iter_source(ms[1][1])
            if not (rng[0] == "agg" and rng[1].startswith("Range") and rng[3][0] == ("int", 0)
                    and is_call(rng[3][1], "int_len") and rng[3][1][3][0] == ms[0]):
                return Writer(b, "K6", False, "pushed word range %s is not 0..int_len(%s)" % (show(rng), show(ms[0])))
            srcs.add(ms[0])
        d = a.data
        if is_call(d, "into_boxed_slice") and d[3]:
            d = d[3][0]
        init = b.init_expr(d[2]) if d[0] == "var" and len(d) > 2 else None
        if init is None or not (is_call(init, ("with_capacity", "new")) and "Vec" in (init[2] or "")):
            return None
    elif writes:
        for w in writes:
            if w.how != "assign":
                return None
            ms = _masked_source(w.value)
            if ms is None:
                return None
            if w.index != ms[1]:
                return None
            srcs.add(ms[0])
        # storage initially zero?
        if a.data[0] != "var":
            return None
        init = b.init_expr(a.data[2])
        if init is None or not storage.is_zero_data(init):
            return None
    else:
        # collect(map(0..int_len(src), |i| get_int(src, i).unwrap()))
        d = a.data
        if not (is_call(d, "collect") and d[3] and is_call(d[3][0], "map") and len(d[3][0][3]) == 2):
            return None
        rng, clo = d[3][0][3]
        if clo[0] != "closure":
            return None
        sc = storage.subst_closure(crate, clo)
        if sc is None:
            return None
        ret, cb = sc
        ms = _masked_source(ret)
        if ms is None:
            return None
        if ms[1] != ("param", cb.local_name(2)):
            return None
        if not (rng[0] == "agg" and rng[1].startswith("Range") and rng[3][0] == ("int", 0)
                and is_call(rng[3][1], "int_len") and rng[3][1][3][0] == ms[0]):
            return Writer(b, "K6", False, "word range %s is not 0..int_len(%s)" % (show(rng), show(ms[0])))
        srcs.add(ms[0])
    if len(srcs) != 1:
        return None
    src = list(srcs)[0]
    # the source must be a bit vector (whose accessor masks by its length), not a plain integer slice
    fam = None
    if src[0] == "param":
        for l in range(1, b.arg_count + 1):
            if b.local_name(l) == src[1]:
                fam = mir.ty_family(b.local_ty(l))
    if fam not in ("Bvf", "Bvd", "Bv"):
        # a plain integer slice: its accessor zero-extends past the end of the slice, so with length = len(slice) * BITS every
        # bit below the length is a bit of the slice and everything above is zero
        sty = None
        if src[0] == "param":
            for l in range(1, b.arg_count + 1):
                if b.local_name(l) == src[1]:
                    sty = re.sub(r"/#\d+", "", re.sub(r"'\S+ ?", "", b.local_ty(l)))
        m = re.match(r"^&\[(\w+)\]$", sty or "")
        if m:
            L = canon_len = a.length
            from . import defs
            okL = is_bin(L, "Mul") and any(is_call(x, "len") and len(x[3]) == 1 and x[3][0] == src and defs._bits_of(y, m.group(1))
                                           for x, y in ((L[2], L[3]), (L[3], L[2])))
            if okL:
                return Writer(b, "K6", True, "whole words of the slice `%s` (its accessor zero-extends), length = len * BITS" % show(src))
            return Writer(b, "K6", False, "copies the words of the slice %s but stores length %s" % (show(src), show(L)))
        return None
    L = a.length
    name = show(src)
    okL = (L == ("field", src, "length")) or (is_call(L, "len") and L[3] == (src,))
    if not okL:
        return Writer(b, "K6", False, "copies masked words of %s but stores length %s" % (show(src), show(L)))
    return Writer(b, "K6", True, "words from the length-masked accessor of `%s`, length = its length" % name)


def _prefix_of(e, root_pred):
    """e denotes `root[..n]`, `root[0..n]` or the whole `root` (through as_ref / deref / & ): -> True"""
    for _ in range(6):
        if is_call(e, ("as_ref", "as_mut", "deref", "deref_mut", "borrow", "as_slice", "as_mut_slice")) and len(e[3]) == 1:
            e = e[3][0]
            continue
        break
    if root_pred(e):
        return True
    if is_call(e, ("index", "index_mut")) and len(e[3]) == 2 and root_pred(e[3][0]) and e[3][1][0] == "agg":
        r = e[3][1]
        if r[1] in ("RangeTo", "RangeFull"):
            return True
        if r[1] == "Range" and r[3] and r[3][0] == ("int", 0):
            return True
    return False


def check_realloc(b, writes, aggs, dstores, lens):
    """reallocation helpers: `let mut n = vec![0; k]; n[..j].copy_from_slice(&self.data[..j]) / n[i] = self.data[i];
    self.data = n.into_boxed_slice()`, or `self.data = self.data[..j].to_vec().into_boxed_slice()` - a prefix of the old
    words lands at the same positions of fresh, otherwise zeroed storage (value-preserving whatever k and j are; j <= both
    lengths is bounds-checked)"""
    if aggs or lens or len(dstores) != 1:
        return None
    ds = dstores[0]
    if ds.obj != ("param", "self"):
        return None
    sd = ("field", ("param", "self"), "data")
    v = ds.value
    if is_call(v, ("into_boxed_slice", "into", "from")) and v[3]:
        v = v[3][0]
    if not writes:
        init = b.init_expr(v[2]) if v[0] == "var" and len(v) > 2 else v
        if init is not None and is_call(init, ("to_vec", "to_owned", "into", "from", "collect")) and init[3] \
                and _prefix_of(init[3][0], lambda x: x == sd):
            return Writer(b, "REALLOC", True, "the new storage is a copy of a prefix of the old words")
        return None
    if v[0] != "var" or len(v) < 3:
        return None
    init = b.init_expr(v[2])
    if init is not None and is_call(init, ("with_capacity", "new")) and "Vec" in (init[2] or "") and writes \
            and all(w.obj == v and w.index is None for w in writes):
        # let mut n = Vec::with_capacity(k); n.extend_from_slice(&self.data[..j]); n.resize(k, 0): the old words first, in
        # order, then zeros (an empty vector grows only at its end)
        seen_copy = False
        for w in sorted(writes, key=lambda w: w.loc):
            src = w.value[0] if w.value else None
            if w.how in ("call:extend_from_slice", "call:extend", "call:extend_from_within") and src is not None and not seen_copy \
                    and _prefix_of(mir.strip_casts(src[3][0] if is_call(src, ("iter", "copied", "cloned", "into_iter")) and src[3] else src),
                                   lambda x: x == sd):
                seen_copy = True
            elif w.how == "call:resize" and len(w.value) == 2 and w.value[1] == ("int", 0):
                pass
            else:
                return None
        if seen_copy:
            return Writer(b, "REALLOC", True, "the new storage is the old words (a prefix of them) followed by zeros")
        return None
    if init is None or not storage.is_zero_data(init):
        return None
    for w in writes:
        if w.obj != v:
            return None
        if w.how == "assign":
            if not (w.value[0] == "index" and w.value[1] == sd and w.value[2] == w.index):
                return None
        elif w.how == "call:copy_from_slice":
            tgt, src = w.target, (w.value[0] if w.value else None)
            if src is None or not _prefix_of(tgt, lambda x: x == v) or not _prefix_of(src, lambda x: x == sd):
                return None
        else:
            return None
    return Writer(b, "REALLOC", True, "verbatim copy of the old words into fresh zeroed storage that replaces self.data")


def check_k5_conjuncts(crate, b, kk, evs, writes, aggs, dstores, lens):
    fam, tr, name = kk
    if name in ("append", "prepend") and fam == "Bvf":
        if writes or dstores or aggs or lens:
            return False, "%s is expected to write only through set_int/resize/shl_assign" % name
        return True, ""
    if name == "shl_in":
        # the top-word write (index self.length / BU) goes through `& mask(self.length % BU)`
        top = [w for w in writes if w.index is not None and split_div_bu(w.index) == ("field", ("param", "self"), "length")]
        if not top:
            return False, "shl_in: no write to the top word self.length / BIT_UNIT found"
        for w in top:
            v = w.value
            ok = is_bin(v, "BitAnd") and any(
                (match_mask_call(x) is not None and split_rem_bu(match_mask_call(x)) == ("field", ("param", "self"), "length"))
                for x in (v[2], v[3]))
            if not ok:
                return False, "shl_in: top word is written without `& mask(self.length %% BIT_UNIT)`: %s" % show(v)[:120]
        return True, ""
    if name in ("rotl", "rotr") or (fam == "Bvd" and name in ("shl", "shr")):
        # fresh storage must be zero-initialised
        objs = {w.obj for w in writes}
        for o in objs:
            if o[0] != "var":
                return False, "%s writes into %s, expected fresh storage" % (name, show(o))
            init = b.init_expr(o[2])
            if init is None or not storage.is_zero_data(init):
                return False, "%s: fresh storage `%s` is not zero-initialised (%s)" % (name, show(o), show(init) if init else "?")
        for w in writes:
            # each write or-s a chunk `& mask(l)`
            v = w.value if w.how == "assign" else (w.value[0] if w.value else None)
            if v is None or not mir.contains(v, lambda x: is_call(x, "mask")):
                return False, "%s: a chunk is stored without `& mask(l)`" % name
        if fam == "Bvd" and name in ("shl", "shr"):
            # storage has cap(self.length) words and the result length is self.length
            for a in aggs:
                if a.length != ("field", ("param", "self"), "length"):
                    return False, "%s: result length is %s, not self.length" % (name, show(a.length))
        return True, ""
    if name in ("reserve", "shrink_to_fit"):
        for w in writes:
            if w.how != "assign" or not (w.value[0] == "index" and w.value[2] == w.index
                                          and w.value[1] == ("field", ("param", "self"), "data")):
                return False, "%s: copy is not verbatim word-for-word (%s)" % (name, show(w.value)[:100])
        if lens:
            return False, "%s stores the length" % name
        for o in {w.obj for w in writes}:
            init = b.init_expr(o[2]) if o[0] == "var" else None
            if init is None or not storage.is_zero_data(init):
                return False, "%s: new storage is not zero-initialised" % name
        return True, ""
    if lens and name not in ():
        return False, "%s stores the length field directly" % name
    if name == "set":
        # one word, read-modify-write of a single bit: (old & !(1 << i % BU)) | (bit << i % BU)
        idx = ("param", b.local_name(2))
        if len(writes) != 1:
            return False, "set performs %d raw writes, expected one" % len(writes)
        w = writes[0]
        if split_div_bu(w.index) != idx:
            return False, "set writes word `%s`, expected index / BIT_UNIT" % show(w.index)
        v = w.value
        ok = is_bin(v, "BitOr")
        if ok:
            parts = (v[2], v[3])
            clear = [x for x in parts if is_bin(x, "BitAnd") and any(y[0] == "un" and y[1] == "Not" for y in (x[2], x[3]))]
            put = [x for x in parts if is_bin(x, "Shl") and split_rem_bu(x[3]) == idx]
            ok = len(clear) == 1 and len(put) == 1
            if ok:
                nt = [y for y in (clear[0][2], clear[0][3]) if y[0] == "un"][0][2]
                ok = is_bin(nt, "Shl") and split_rem_bu(nt[3]) == idx and show(nt[2]) in ("1", "ONE")
        if not ok:
            return False, "set stores `%s`, expected (old & !(1 << index %% BU)) | (bit << index %% BU)" % show(v)[:120]
        return True, ""
    if name in ("from_binary", "from_hex", "from_bytes"):
        for o in {w.obj for w in writes}:
            init = b.init_expr(o[2]) if o[0] == "var" and len(o) > 2 else None
            if init is None or not storage.is_zero_data(init):
                return False, "%s: digits are shifted into storage that is not zero-initialised" % name
        for w in writes:
            v = w.value if w.how == "assign" else None
            if v is None:
                return None, "%s: word packing idiom not recognised (write through %s): padding not decided here" % (name, w.how)
            if not (is_bin(v, "BitOr") and any(is_bin(x, "Shl") for x in (v[2], v[3]))) and not is_call(mir.strip_casts(v), "cast_from"):
                return None, "%s: word packing idiom not recognised (`%s`): padding not decided here" % (name, show(v)[:80])
        return True, ""
    if name in ("shl_assign", "shr_assign"):
        ors = [w for w in writes if w.how == "call:bitor_assign" or (w.how == "assign" and is_bin(w.value, "BitOr"))]
        def _val(w):
            return (w.value[0] if w.value else ("unknown", "no operand")) if w.how.startswith("call:") else w.value
        chunk_idiom = any(mir.contains(_val(w), lambda x: isinstance(x, tuple) and x[:1] == ("un",) and x[1] == "Not" and is_bin(x[2], "Shl")
                                       and mir.contains(x[2][2], lambda y: is_call(y, "mask"))) for w in writes)
        if not chunk_idiom:
            # no `& !(mask(l) << i)` clearing step anywhere: this is not the reviewed chunk-move idiom but another algorithm
            # (word-at-a-time moves, ...); the table entry does not describe it
            return None, "%s is not written in the chunk-move idiom the table entry describes (no `& !(mask(l) << i)` step): padding not decided here" % name
        if not ors:
            return False, "%s: no chunk is or-ed into place" % name
        for w in ors:
            v = (w.value[0] if w.value else ("unknown", "no operand")) if w.how.startswith("call:") else w.value
            if not mir.contains(v, lambda x: is_bin(x, "BitAnd") and (is_call(x[2], "mask") or is_call(x[3], "mask"))):
                return False, "%s: the moved chunk is not `& mask(l)`-ed before being or-ed into place" % name
        clears = [w for w in writes if w not in ors and not (w.how == "call:fill" and w.value and (w.value[0] == ("int", 0)))]
        for w in clears:
            v = (w.value[0] if w.value else ("unknown", "no operand")) if w.how.startswith("call:") else w.value
            if not mir.contains(v, lambda x: x[0] == "un" and x[1] == "Not" and mir.contains(x, lambda y: is_call(y, "mask"))):
                return False, "%s: destination bits are not cleared with `& !(mask(l) << i)`" % name
        return True, ""
    if name == "try_from:uint":
        # every stored word is a zero-extending piece of the integer: the integer itself (word 0 of a wide enough word type)
        # or the integer shifted right by a word offset with a shift that yields 0 once the offset reaches the integer's
        # width. A shift whose amount wraps modulo the width (wrapping_shr, overflowing_shr, rotate_right) stores copies
        # of the low words at and above the integer's width: stray bits above the length.
        arg = ("param", b.local_name(1))
        for w in writes:
            v = w.value if w.how == "assign" else (w.value[0] if w.value else None)
            if v is None:
                return None, "try_from: word stored through %s: not decided" % w.how
            v = mir.strip_casts(v)
            while is_call(v, ("cast_from", "cast_to", "from", "into")) and len(v[3]) == 1:
                v = mir.strip_casts(v[3][0])
            if v == arg:
                if w.index not in (("int", 0),):
                    return False, "try_from: the unshifted integer is stored into word `%s` (only word 0 may take it)" % show(w.index)
                continue
            bad = [x[1] for x in walk(v) if is_call(x, ("wrapping_shr", "overflowing_shr", "rotate_right", "rotate_left", "wrapping_shl"))]
            if bad:
                return False, ("try_from: word `%s` is produced by %s(), whose amount wraps modulo the integer's width: words at or above "
                               "that width receive copies of the integer's low bits (stray bits above the length)"
                               % ("<each word of the array>" if w.index is None or w.index[0] == "iter" else show(w.index)[:30], bad[0]))
            zero_fill = (is_call(v, "unwrap_or") and len(v[3]) == 2 and v[3][1] == ("int", 0) and is_call(v[3][0], "checked_shr")) \
                or is_call(v, "unbounded_shr") or v == ("int", 0)
            if not zero_fill:
                return None, "try_from: stored word `%s` is not one of the zero-extending forms this rule reads: not decided" % show(v)[:80]
        return True, ""
    if name in ("append", "prepend") and fam == "Bvd":
        arg = ("param", b.local_name(2))
        for w in writes:
            v = w.value if w.how == "assign" else (w.value[0] if w.value else None)
            if v is None:
                continue
            src_ok = mir.contains(v, lambda x: is_call(x, "get_int") and x[3] and x[3][0] == arg) or \
                mir.contains(v, lambda x: x[0] == "var" and x[1] == "prev")
            if not src_ok:
                if mir.contains(v, lambda x: isinstance(x, tuple) and x[:1] == ("iv",)):
                    return None, "%s: stored word `%s` is an item of an iterator whose elements are not tracked" % (name, show(v)[:80])
                return False, "%s: stored word `%s` does not come from the length-masked accessor of the argument" % (name, show(v)[:80])
        return True, ""
    return True, ""


def _iter_bounded_by_used_words(index):
    """the iterated storage is sliced (`data[..n]`, `data[a..n]`) or `take(n)`-ed with n derived from the length
    (capacity_from_bit_len / int_len, possibly through min): the iterator cannot reach a word above the top word"""
    def length_derived(e):
        return mir.contains(e, lambda x: is_call(x, "capacity_from_bit_len") or is_call(x, "int_len"))
    for x in walk(index):
        if isinstance(x, tuple) and x and x[0] == "agg" and isinstance(x[1], str) and x[1].startswith("Range") and x[3]:
            if x[1] in ("RangeTo", "RangeToInclusive") and length_derived(x[3][0]):
                return True
            if x[1] in ("Range", "RangeInclusive") and len(x[3]) == 2 and length_derived(x[3][1]):
                return True
        if is_call(x, "take") and len(x[3]) == 2 and length_derived(x[3][1]):
            return True
    return False


def check_k1(crate, b, evs, writes, aggs, dstores, lens, masks):
    """after the last raw write on every path to Return there is a canonicalising event whose length
    argument is the length the object has at return"""
    nonmask = [w for w in writes if not getattr(w, "is_mask", False)]
    # aggregates with non-zero data count as writes of the aggregate's destination object
    dirty_aggs = [a for a in aggs if not storage.is_zero_data(a.data)]
    mutating_calls = [e for e in evs if e.kind == "mcall" and not getattr(e, "is_mask", False)]
    if not nonmask and not dirty_aggs and not dstores:
        if not masks and not lens:
            return Writer(b, "K3", True, "no raw write besides zero aggregates")
    problems = []
    objs = []
    extra_locs = {}
    for w in nonmask:
        if w.obj not in objs:
            objs.append(w.obj)
    for a in aggs:
        d = a.data
        if is_call(d, "into_boxed_slice") and d[3]:
            d = d[3][0]
        if d[0] == "var" and len(d) > 2:
            # storage carried by a local: dirty if its initialiser is not all-zero
            init = b.init_expr(d[2])
            if init is None or not storage.is_zero_data(init):
                if d not in objs:
                    objs.append(d)
                fd = b.full_defs(d[2])
                if fd:
                    extra_locs.setdefault(d, []).append((fd[0][2], fd[0][3]))
        elif not storage.is_zero_data(d):
            if a.dest not in objs:
                objs.append(a.dest)
            extra_locs.setdefault(a.dest, []).append(a.loc)
    if not objs and lens:
        objs = list({l.obj for l in lens})
    detail = []
    soft = []
    for obj in objs:
        ws = [w for w in nonmask if w.obj == obj]
        wl = [w.loc for w in ws] + extra_locs.get(obj, [])
        cands = len_exprs_of(b, obj, evs)
        # aggregates built later from a carrier
        ms = []
        for m in masks:
            if not (m.obj == obj):
                continue
            if m.form.startswith("badx"):
                problems.append("%s: %s" % (show(obj), m.detail))
                continue
            if m.form.startswith("bad"):
                # a `&= mask(..)` of the top word whose index / width the rule cannot relate to a length: a truncation in a
                # spelling it does not read, not evidence of a missing one
                soft.append("%s: %s" % (show(obj), m.detail))
                continue
            if m.form == "b2":
                # last_mut: obj must be storage allocated with exactly cap(L) words
                if not _exact_fit(crate, b, obj, m.L):
                    known_other = obj[0] != "var" or (b.init_expr(obj[2]) is not None and vec_alloc_len(b.init_expr(obj[2])) is not None)
                    (problems if known_other else soft).append(
                        "mask targets `%s.last_mut()` but the width depends on %s: the last word of the storage is the word "
                        "holding bit len-1 only for storage allocated with exactly cap(len) words%s"
                        % (show(obj), show(m.L), "" if known_other else " (how the storage is allocated is not apparent here)"))
                    if not known_other:
                        ms.append(m)
                    continue
            if not same_len(m.L, cands):
                problems.append("canonicalising event %s uses length %s, but %s returns with length in {%s}"
                                % (m.detail, show(m.L), show(obj), ", ".join(sorted({show(c) for c in cands}))))
                continue
            ms.append(m)
        if not ms:
            if ws or wl:
                msg = ("raw writes to %s (%s) are not followed by any truncation to its length"
                       % (show(obj), "; ".join(sorted({w.how for w in ws})) or "aggregate"))
                body_masks = [b.e_call(t) for bb, t, fn in b.iter_calls() if fn and fn["name"] == "mask"]
                # masks that can pertain to this object: on the object itself, or on a local that is moved into the
                # aggregate's data (`let data = { let mut d = ..; d.last_mut() &= ..; d }`)
                rel_ids = set()
                for a in aggs:
                    if a.dest == obj and a.data[0] != "var" and getattr(a, "data_local", None) is not None:
                        rel_ids |= storage.flows_into(b, a.data_local)
                near = [m for m in masks if m.obj == obj or (m.obj[0] == "var" and len(m.obj) > 2 and m.obj[2] in rel_ids)]
                if obj[0] == "var" and len(obj) > 2:
                    # ... or on a local this one is moved into (`let data = match .. { .. => { let mut d = ..; d } }; data.last_mut() ..`)
                    near += [m for m in masks if m.obj[0] == "var" and len(m.obj) > 2 and m.obj != obj and obj[2] in storage.flows_into(b, m.obj[2])]
                if near and not any(m.obj == obj and not m.form.startswith("bad") for m in near):
                    masks_near = near
                    soft.append(msg + " that this rule can attribute to it (a word moved into it is masked: %s)" % masks_near[0].detail[:80])
                else:
                    problems.append(msg)
            continue
        # a mask of the single word L / BU (forms b1, b3) truncates the object only if no raw write can reach a word
        # above it: loops over all N words / all allocated words need the all-words canonicaliser (mod2n)
        if ms and all(m.form in ("b1", "b3") for m in ms) and obj[0] in ("param",):
            for w in ws:
                if getattr(w, "is_mask", False) or _and_only(w):
                    continue
                if w.index is not None and w.index[0] == "iv":
                    src = b.iter_source(w.index[1])
                    hi = src[3][1] if src[0] == "agg" and src[1].startswith("Range") and len(src[3]) == 2 else None
                    bounded = hi is not None and mir.contains(hi, lambda x: is_call(x, "capacity_from_bit_len") or is_call(x, "int_len"))
                    if not bounded:
                        problems.append("the truncation %s clears only the word holding bit len, but the loop over %s writes every word: "
                                        "rhs bits landing in higher words stay in storage" % (ms[0].detail, show(src)))
                        break
                elif w.index is not None and w.index[0] == "iter" and _iter_bounded_by_used_words(w.index):
                    continue
                elif w.index is not None and w.index[0] == "iter":
                    problems.append("the truncation %s clears only the word holding bit len, but every word is written through an iterator"
                                    % ms[0].detail)
                    break
        # fresh storage: the single-word truncation is enough only if the storage has exactly cap(len) words or no write
        # can reach a word above the top one (every loop variable in a write index is bounded by a length-derived count)
        if ms and all(m.form in ("b1", "b3") for m in ms) and obj[0] == "var" and len(obj) > 2 and ms[0].L is not None \
                and not _exact_fit(crate, b, obj, ms[0].L):
            init = b.init_expr(obj[2])
            alloc = vec_alloc_len(init) if init is not None else None
            if alloc is not None:       # allocation size known and different from cap(len)
                for w in ws:
                    if getattr(w, "is_mask", False) or _and_only(w) or w.index is None:
                        continue
                    ivs = [x for x in walk(w.index) if isinstance(x, tuple) and x[:1] == ("iv",) and len(x) == 2]
                    unbounded = []
                    for iv in ivs:
                        src = b.iter_source(iv[1])
                        hi = src[3][1] if src[0] == "agg" and src[1].startswith("Range") and len(src[3]) == 2 else src
                        if not mir.contains(hi, lambda x: is_call(x, "capacity_from_bit_len") or is_call(x, "int_len")):
                            unbounded.append(show(src)[:60])
                    if unbounded:
                        problems.append("the storage `%s` is allocated with %s words (not cap(len)) and written in loops over %s, but the "
                                        "truncation %s clears only the word holding bit len: words above it keep what was written"
                                        % (show(obj), show(alloc[1])[:50], unbounded, ms[0].detail))
                        break
        for loc in wl:
            ok, bad = b.must_pass_to_return(loc, [m.loc for m in ms])
            if not ok:
                msg = ("a path from the raw write at bb%d to the return at bb%d bypasses the truncation (%s)" % (loc[0], bad, ms[0].detail))
                if _bypass_only_when_aligned(b, ms):
                    soft.append(msg + " - only when the length is a multiple of the word width, where the top-word mask has nothing to clear")
                else:
                    problems.append(msg)
                break
        detail.append("%s: %d raw writes, truncated by %s" % (show(obj), len(ws), ", ".join(sorted({m.detail for m in ms}))))
    if dstores:
        problems.append("stores whole storage (`x.data = ..`) outside the table of bounded writers")
    if not objs and not problems:
        problems.append("writer of unrecognised shape")
    if soft and not problems:
        return Writer(b, "UNCLASSIFIED", None, "; ".join(dict.fromkeys(soft)) + " - not decided")
    if problems:
        if storage.is_new_private_helper(b) and all("are not followed by any truncation" in p for p in problems):
            # a self-contained helper introduced after the review that builds a vector without any truncation at all:
            # whether its writes stay below the length is a value-level question (e.g. a right shift of canonical words)
            # that no table entry vouches for - not decided. (A truncation that exists on one path and is bypassed on
            # another is a contradiction and stays a violation.)
            return Writer(b, "UNCLASSIFIED", None, "; ".join(problems) + " - new helper, no table entry: not decided")
        return Writer(b, "UNCLASSIFIED", False, "; ".join(problems))
    return Writer(b, "K1", True, "; ".join(detail))


def _bypass_only_when_aligned(b, ms):
    """every truncation event sits behind a branch taken when `L % BU != 0` (or `> 0`) for the very length L it truncates to:
    it is skipped only for word-aligned L"""
    from . import guard
    for m in ms:
        ok = False
        for sb, cond, taken, succ, other in guard.edges_dominating(b, m.loc[0]):
            for op, l, r in guard.relations_on_edge(cond, taken):
                if op in ("Ne", "Gt") and r == ("int", 0) and split_rem_bu(l) is not None and m.L is not None \
                        and (split_rem_bu(l) == m.L or mir.lin_eq(split_rem_bu(l), m.L)):
                    ok = True
        if not ok:
            return False
    return bool(ms)


def _exact_fit(crate, b, obj, L):
    """obj's storage has exactly cap(L) words"""
    if obj[0] != "var":
        return False
    ty = b.local_ty(obj[2])
    init = b.init_expr(obj[2])
    if init is None:
        return False
    va = vec_alloc_len(init)
    if va is not None:
        return cap_arg(va[1]) == L
    # lemma: X = Bvd::from_bytes(buf[(L+7)/8 bytes]) has cap_from_byte_len((L+7)/8) = cap(L) words
    if mir.ty_family(ty) == "Bvd":
        for x in walk(init):
            if is_call(x, "from_bytes") and "Bvd" in (x[2] or ""):
                src = x[3][0]
                # the buffer: index(buf, RangeFull) with buf = collect(take(repeat(0), (L + 7) / 8))
                for y in walk(src):
                    if isinstance(y, tuple) and y and y[0] == "var":
                        bi = b.init_expr(y[2])
                        if bi is not None and is_call(bi, "collect"):
                            t = bi[3][0]
                            if is_call(t, "take") and t[3][1] == ("bin", "Div", ("bin", "Add", L, ("int", 7)), ("int", 8)):
                                return True
    return False


# ---------------------------------------------------------------------------------------
# shrink rule
# ---------------------------------------------------------------------------------------

def shrink_rule(crate):
    """every LenStore that can decrease the length is preceded on all paths by clearing the vacated bits"""
    res = []
    for b in crate.bodies:
        if b.self_family not in ("Bvf", "Bvd"):
            continue
        evs = storage.events(b)
        lens = [e for e in evs if e.kind == "lenstore"]
        if not lens:
            continue
        masks = find_mask_events(b, evs)
        for l in lens:
            v = l.value
            cur = ("field", l.obj, "length")
            if is_bin(v, "Add") and cur in (v[2], v[3]):
                res.append((b, l, True, "grows: %s" % show(v)))
                continue
            if is_bin(v, "Sub") and v[2] == cur and v[3] == ("int", 1):
                # pop: set(obj, len-1, Zero) must dominate
                ok = False
                for e in evs:
                    if e.kind == "mcall" and e.name == "set" and len(e.args) == 3 and e.args[0] == l.obj \
                            and e.args[1] == v and show(e.args[2]).endswith("Zero") and b.loc_dominates(e.loc, l.loc):
                        ok = True
                how = "after set(len-1, Zero)"
                if not ok:
                    post = _post_store_mask(b, l, masks)
                    if post:
                        ok, how = True, "then " + post
                res.append((b, l, ok, "len -= 1 %s" % (how if ok else "WITHOUT clearing bit len-1 (no set(len-1, Zero) before, no truncation to the new length after)")))
                continue
            # general: a canonicalising event at the new length dominates the store
            multiword = False
            for sb, cond, taken, succ, other in _dom_edges(b, l.loc[0]):
                if taken and is_bin(cond, "Lt") and cond[2] == v and cond[3] == cur:
                    multiword = True   # `if new < len`: may drop any number of whole words
            if not multiword:
                # the store may sit after the join of a `match new.cmp(&len)` / if-else: it is still reached from the
                # shrinking arm, whose words above the new top word must have been zeroed
                from . import guard as _guard
                shrink_succ = []
                for sb, cond, ts, fs in _guard.cond_edges(b):
                    for taken, succ in ((True, ts), (False, fs)):
                        if any(op == "Lt" and x == v and y == cur for op, x, y in _guard.relations_on_edge(cond, taken)):
                            shrink_succ.append(succ)
                for sb, arms in _guard.discr_edges(b):
                    for succ, rel in arms:
                        if any(op == "Lt" and x == v and y == cur for op, x, y in _guard.relations_on_edge(rel, True)):
                            shrink_succ.append(succ)
                if any(l.loc[0] in b.reach_avoiding([s2]) for s2 in shrink_succ):
                    multiword = True
            zero_ok = not multiword
            if multiword:
                for w in evs:
                    # slice form: self.data[new / BU + 1 .. cap(old len)].fill(0)
                    if w.kind == "write" and w.obj == l.obj and w.how == "call:fill" and w.value and (
                            w.value[0] == ("int", 0) or (w.value[0][0] == "assoc" and w.value[0][1] == "ZERO")):
                        for x in walk(w.target):
                            if is_call(x, "new") and "RangeInclusive" in (x[2] or "") and len(x[3]) == 2:
                                lo, hi = x[3]
                                lo_ok = lo == ("bin", "Add", ("bin", "Div", v, _bu_like(lo)), ("int", 1)) or lo == ("bin", "Div", v, _bu_like(lo))
                                if lo_ok and is_bin(hi, "Div") and hi[2] == ("bin", "Sub", cur, ("int", 1)) and is_bu(hi[3]):
                                    zero_ok = True      # ..=(len - 1) / BU is the last used word
                            if isinstance(x, tuple) and x[:2] == ("agg", "Range") and len(x[3]) == 2:
                                lo, hi = x[3]
                                lo_ok = lo == ("bin", "Add", ("bin", "Div", v, _bu_like(lo)), ("int", 1)) or lo == ("bin", "Div", v, _bu_like(lo))
                                hi_ok = cap_arg(hi) == cur or hi == ("cparam", "N") or (is_call(hi, "len") and hi[3] == (("field", l.obj, "data"),))
                                if lo_ok and hi_ok:
                                    zero_ok = True
                for w in evs:
                    if w.kind == "write" and w.obj == l.obj and w.how == "assign" and w.index is not None and w.index[0] == "iv" \
                            and (w.value == ("int", 0) or (w.value[0] == "assoc" and w.value[1] == "ZERO")):
                        src = b.iter_source(w.index[1])
                        if src[0] == "agg" and src[1].startswith("Range"):
                            lo, hi = src[3]
                            lo_ok = lo == ("bin", "Add", ("bin", "Div", v, _bu_like(lo)), ("int", 1)) or lo == ("bin", "Div", v, _bu_like(lo))
                            hi_ok = cap_arg(hi) == cur or hi == ("cparam", "N") or (is_call(hi, "len") and hi[3] == (("field", l.obj, "data"),))
                            if lo_ok and hi_ok and b.block_dominates(w.loc[0], l.loc[0]) is False:
                                # the loop body does not dominate the store, its header does: check the loop is on the path
                                pass
                            if lo_ok and hi_ok:
                                zero_ok = True
            ok = False
            why = "no truncation to the new length %s dominates the length store" % show(v)
            for m in masks:
                if m.obj == l.obj and m.L == v and not m.form.startswith("bad") and b.loc_dominates(m.loc, l.loc):
                    if m.form == "b2" and not _exact_fit(crate, b, l.obj, m.L):
                        why = "last_mut() mask on storage that is not exact-fit"
                        continue
                    ok = True
                    why = "truncated by %s before the store" % m.detail
            if not ok:
                # the store may come first: then the truncation to the new length must follow it on every path
                post = _post_store_mask(b, l, masks, also=v, crate=crate)
                if post:
                    ok, why = True, post
            if ok and not zero_ok:
                ok = False
                why = ("shrinks by an arbitrary amount (`%s < len`) but the whole words above the new length are not zeroed "
                       "(expected a loop writing 0 to words %s / BU + 1 .. cap(old length))" % (show(v), show(v)))
            res.append((b, l, ok, why))
    return res


def _post_store_mask(b, l, masks, also=None, crate=None):
    """the length store is followed on every path to a return by a truncation to `obj.length` (the new value; `also` is
    the stored expression itself, valid when it is a parameter / immutable value)"""
    cur = ("field", l.obj, "length")
    Ls = [cur] + ([also] if also is not None and also[0] in ("param",) else [])
    locs = [m.loc for m in masks if m.obj == l.obj and m.L in Ls and not m.form.startswith("bad")
            and (m.form != "b2" or (crate is not None and _exact_fit(crate, b, l.obj, m.L)))
            and b.loc_dominates(l.loc, m.loc) and m.loc != l.loc]
    if not locs:
        return None
    ok, _ = b.must_pass_to_return(l.loc, locs)
    return "truncated to the new length on every path after the store" if ok else None


def _dom_edges(b, blk):
    from . import guard
    return guard.edges_dominating(b, blk)


def _bu_like(e):
    """the BIT_UNIT operand of `x / BU` inside e (or a placeholder that cannot match)"""
    for x in walk(e):
        if is_bin(x, "Div") and is_bu(x[3]):
            return x[3]
    return ("none",)


# ---------------------------------------------------------------------------------------
# USED words discipline for Bvd
# ---------------------------------------------------------------------------------------
USED_ALLOWED_LEN_USERS = {
    "capacity": "reports the allocation",
    "reserve": "allocation size / verbatim copy",
    "shrink_to_fit": "allocation size / verbatim copy",
    "rotl": "allocation size of the fresh storage",
    "rotr": "allocation size of the fresh storage",
    "eq": "read-only (relies on INV over allocated words)",
    "cmp": "read-only (relies on INV over allocated words)",
    "partial_cmp": "read-only",
    "new": "constructor assertion",
    "fmt": "derived Debug",
    "clone": "derived Clone",
}


def used_words(crate):
    """In Bvd code, a loop that writes storage words must not be bounded by the allocation `self.data.len()`."""
    res = []
    for b in crate.bodies:
        if b.self_family != "Bvd" and not (b.kind == "Closure" and "dynamic::" in b.path):
            continue
        if storage.judged_through_callers(b):
            continue        # judged through its callers, where its bounds are concrete
        evs = storage.events(b)
        writes = [e for e in evs if e.kind == "write"]
        uses_alloc = []
        for bb, t, fn in b.iter_calls():
            if fn and fn["name"] == "len":
                a = b.e_operand(t["args"][0])
                if a == ("field", ("param", "self"), "data"):
                    uses_alloc.append(bb)
        iter_writes = [w for w in writes if w.obj == ("param", "self") and (
            (w.index is not None and w.index[0] == "iter") or (w.index is None and w.how.startswith("call:")))]
        if not uses_alloc and not iter_writes:
            continue
        inplace = [w for w in writes if w.obj == ("param", "self")]
        if b.name in USED_ALLOWED_LEN_USERS and not (b.name in ("eq", "cmp", "partial_cmp") and writes) \
                and not (b.name in ("rotl", "rotr") and inplace):
            res.append((b, True, "allowed user of data.len(): %s" % USED_ALLOWED_LEN_USERS[b.name]))
            continue
        bad = []
        for w in writes:
            if w.obj != ("param", "self"):
                continue
            if w.index is not None and w.index[0] == "iv":
                src = b.iter_source(w.index[1])
                if mir.contains(src, lambda x: is_call(x, "len") and x[3] and x[3][0] == ("field", ("param", "self"), "data")):
                    bad.append("write self.data[%s] in a loop over %s (allocated words, not used words)"
                               % (b.iv_name(w.index[1]), show(src)))
            if w.index is None and w.how.startswith("call:") and not any(v in ("get_mut", "last_mut", "first_mut") for v in w.via) \
                    and w.how not in ("call:set_int",) and not _and_only(w):
                tgt = show(w.target)
                ranged = w.how == "call:copy_within" and any(isinstance(v, tuple) and v[:1] == ("agg",) and str(v[1]).startswith("Range")
                                                              for v in (w.value or ()))
                if "Range" not in tgt and "capacity_from_bit_len" not in tgt and not ranged:
                    bad.append("`%s` mutates the whole storage `%s` (allocated words, not used words)" % (w.how[5:], tgt[:50]))
            if w.index is not None and w.index[0] == "iter":
                # mutable iteration over storage: must be restricted to the used words self.data[..cap(len)]
                src = w.index[1]
                restricted = mir.contains(src, lambda x: is_call(x, ("index_mut", "index", "get_mut")) and len(x[3]) == 2
                                          and mir.contains(x[3][1], lambda y: is_call(y, "capacity_from_bit_len")))
                if not restricted and not getattr(w, "is_mask", False) and not _and_only(w):
                    bad.append("write through a mutable iterator over the whole storage `%s` (allocated words, not used words)" % show(src))
        if bad:
            res.append((b, False, "; ".join(sorted(set(bad)))))
        else:
            res.append((b, True, "data.len() used, but no storage write is bounded by it"))
    return res
