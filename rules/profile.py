"""DBGFX: no side effect may live inside code that only exists with debug assertions on.

`debug_assert!(x.pop().is_some())`, `debug_assert_eq!(self.set_int(..), Some(0))` and
`if cfg!(debug_assertions) { self.length = .. }` all compile, pass a debug-profile test suite and silently lose
the effect in release builds. The rule compares, per function, the multiset of *effect signatures* in the
pruned CFG of the two build configurations (debug assertions on / off):

  - calls that pass at least one `&mut` argument (callee name + which argument positions are `&mut`);
  - stores through a dereference or into a field/index of a place (`*p = ..`, `x.length = ..`, `data[i] = ..`).

Pure calls (len(), capacity(), comparisons, formatting of the assertion message) are not effects, so an ordinary
debug_assert! leaves the two multisets equal. The same comparison also catches the opposite mistake (an effect
that exists only in release builds).
"""
import re
from collections import Counter

from . import storage
from .mir import show


def _norm(text):
    """local numbering differs between the two configurations: drop it"""
    return re.sub(r"\b(iv|_)\d+", r"\1", text)


def effect_signatures(b):
    sig = Counter()
    for bb, t, fn in b.iter_calls():
        muts = [str(i) for i, a in enumerate(t["args"]) if storage.is_mut_ref_operand(b, a)]
        if muts:
            name = fn["name"] if fn else "<indirect>"
            sig["call %s(&mut @%s)" % (name, ",".join(muts))] += 1
    for bb, i, st in b.iter_stmts():
        if st["s"] != "assign" or not st["p"]["pr"]:
            continue
        root_ty = b.local_ty(st["p"]["l"])
        named = bool(b.locals[st["p"]["l"]].get("name"))
        if root_ty.startswith("&") or named:
            try:
                sig["store %s" % _norm(show(b.e_place(st["p"])))[:120]] += 1
            except Exception:
                sig["store ?"] += 1
    return sig


def debug_only_effects(dbg, rel):
    """[(body, key, verdict, msg)] over every function present in both configurations"""
    out = []
    relmap = {b.path: b for b in rel.bodies}
    for b in dbg.bodies:
        if b.kind not in ("Fn", "AssocFn", "Closure"):
            continue
        r = relmap.get(b.path)
        if r is None:
            continue
        sd, sr = effect_signatures(b), effect_signatures(r)
        if sd == sr:
            if sd:
                out.append((b, "%s|DBGFX" % b.key, "pass", "%d effect(s), identical with debug assertions on and off" % sum(sd.values())))
            continue
        only_d = sd - sr
        only_r = sr - sd
        parts = []
        if only_d:
            parts.append("only with debug assertions: " + ", ".join("%s x%d" % kv for kv in sorted(only_d.items())))
        if only_r:
            parts.append("only without debug assertions: " + ", ".join("%s x%d" % kv for kv in sorted(only_r.items())))
        out.append((b, "%s|DBGFX" % b.key, "violation",
                    "side effects differ between build profiles (an effect inside debug_assert!/cfg!(debug_assertions)): " + "; ".join(parts)))
    return out
