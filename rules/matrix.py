"""MATRIX placeholder (implemented below in later commits)."""


def run(ctx, rep, parts):
    rep.notes.append("MATRIX witness crate not built yet")
