"""MATRIX: impl matrix and result types (DESIGN §4 MATRIX).

Two independent sources: (1) the driver's impl table; (2) a generated, compile-only witness crate
that names `bva` as an external user would and ascribes the result type of every
LHS kind x RHS kind x operator x owned/borrowed form. The witness crate is only type-checked
(`cargo check`), never run. Negative facts have compile_fail doctests with a compiling twin.
"""
import os
import shutil
import subprocess

from . import extract, mir

WITNESS = os.path.join(extract.VERIF, "witness")

VEC_KINDS = [
    ("Bvf<u8, 1>", "Bvf::<u8, 1>::zeros(8)"),
    ("Bvf<u32, 3>", "Bvf::<u32, 3>::zeros(70)"),
    ("Bvf<u128, 1>", "Bvf::<u128, 1>::zeros(100)"),
    ("Bvf<usize, 2>", "Bvf::<usize, 2>::zeros(100)"),
    ("Bvd", "Bvd::zeros(200)"),
    ("Bv", "Bv::zeros(200)"),
]
UINTS = ["u8", "u16", "u32", "u64", "u128", "usize"]
BINOPS = [("+", "+="), ("-", "-="), ("*", "*="), ("/", "/="), ("%", "%="), ("&", "&="), ("|", "|="), ("^", "^=")]
SHIFTS = [("<<", "<<="), (">>", ">>=")]


def generate(parts):
    fns = []
    n = 0
    if "ops" in parts:
        for li, (lt, lc) in enumerate(VEC_KINDS):
            body = []
            rhs_kinds = [(rt, rc) for rt, rc in VEC_KINDS] + [(u, "1%s" % u) for u in UINTS]
            for rt, rc in rhs_kinds:
                for op, aop in BINOPS:
                    body.append("    {{ let a: {lt} = {lc}; let b: {rt} = {rc}; let _: {lt} = a.clone() {op} b.clone(); let _: {lt} = &a {op} b.clone(); "
                                "let _: {lt} = a.clone() {op} &b; let _: {lt} = &a {op} &b; let mut c = a.clone(); c {aop} b.clone(); c {aop} &b; let _: {lt} = c; }}"
                                .format(lt=lt, lc=lc, rt=rt, rc=rc, op=op, aop=aop))
                    n += 6
            for u in UINTS:
                for op, aop in SHIFTS:
                    body.append("    {{ let a: {lt} = {lc}; let k: {u} = 1; let _: {lt} = a.clone() {op} k; let _: {lt} = &a {op} k; let _: {lt} = a.clone() {op} &k; "
                                "let _: {lt} = &a {op} &k; let mut c = a.clone(); c {aop} k; c {aop} &k; let _: {lt} = c; }}"
                                .format(lt=lt, lc=lc, u=u, op=op, aop=aop))
                    n += 6
            body.append("    {{ let a: {lt} = {lc}; let _: {lt} = !a.clone(); let _: {lt} = !&a; }}".format(lt=lt, lc=lc))
            n += 2
            fns.append("#[allow(unused)]\npub fn ops_%d() {\n%s\n}\n" % (li, "\n".join(body)))
    if "cmp" in parts:
        body = []
        for lt, lc in VEC_KINDS:
            for rt, rc in VEC_KINDS:
                body.append("    {{ let a: {lt} = {lc}; let b: {rt} = {rc}; let _: bool = a == b; let _: bool = a != b; let _: bool = a < b; "
                            "let _: bool = a <= b; let _: bool = a > b; let _: bool = a >= b; "
                            "let _: Option<std::cmp::Ordering> = a.partial_cmp(&b); }}".format(lt=lt, lc=lc, rt=rt, rc=rc))
                n += 7
            body.append("    {{ let a: {lt} = {lc}; let _: std::cmp::Ordering = Ord::cmp(&a, &a.clone()); fn is_eq<T: Eq + std::hash::Hash>(_: &T) {{}} is_eq(&a); }}"
                        .format(lt=lt, lc=lc))
            n += 2
        fns.append("#[allow(unused)]\npub fn cmps() {\n%s\n}\n" % "\n".join(body))
    if "conv" in parts:
        body = []
        for st, sc in VEC_KINDS:
            # towards Bvd / Bv: From, by reference and by value
            for tt in ("Bvd", "Bv"):
                body.append("    {{ let s: {st} = {sc}; let _: {tt} = <{tt}>::from(&s); let _: {tt} = <{tt}>::from(s.clone()); "
                            "let _: Result<{tt}, std::convert::Infallible> = <{tt}>::try_from(&s); }}".format(st=st, sc=sc, tt=tt))
                n += 3
            # towards Bvf: TryFrom with ConvertionError
            for tt, _ in VEC_KINDS[:4]:
                body.append("    {{ let s: {st} = {sc}; let _: Result<{tt}, ConvertionError> = <{tt}>::try_from(&s); }}".format(st=st, sc=sc, tt=tt))
                n += 1
                if not st.startswith("Bvf"):
                    # by value: provided for Bvd / Bv sources (a by-value Bvf -> Bvf impl would overlap the reflexive
                    # blanket impl, so the crate offers that direction by reference only)
                    body.append("    {{ let s: {st} = {sc}; let _: Result<{tt}, ConvertionError> = <{tt}>::try_from(s.clone()); }}".format(st=st, sc=sc, tt=tt))
                    n += 1
            for u in UINTS:
                body.append("    {{ let s: {st} = {sc}; let _: Result<{u}, ConvertionError> = <{u}>::try_from(&s); "
                            "let _: Result<{u}, ConvertionError> = <{u}>::try_from(s.clone()); }}".format(st=st, sc=sc, u=u))
                n += 2
        for u in UINTS:
            body.append("    {{ let x: {u} = 1; let _: Bvd = Bvd::from(x); let _: Bvd = Bvd::from(&x); let _: Bv = Bv::from(x); let _: Bv = Bv::from(&x); "
                        "let _: Result<Bvf<u8, 1>, ConvertionError> = Bvf::<u8, 1>::try_from(x); let _: Result<Bvf<u32, 3>, ConvertionError> = Bvf::<u32, 3>::try_from(&x); "
                        "let sl: &[{u}] = &[x]; let _: Bvd = Bvd::from(sl); let _: Bv = Bv::from(sl); let _: Result<Bvf<u64, 2>, ConvertionError> = Bvf::<u64, 2>::try_from(sl); }}"
                        .format(u=u))
            n += 9
        body.append("    { let _: Bit = Bit::from(1u8); let _: Bit = Bit::from(true); let _: bool = bool::from(Bit::One); let _: u128 = u128::from(Bit::One); }")
        n += 4
        fns.append("#[allow(unused)]\npub fn convs() {\n%s\n}\n" % "\n".join(body))
    neg = '''
/// There is no infallible conversion into a fixed-capacity vector.
/// ```compile_fail,E0277
/// use bva::*;
/// let d = Bvd::zeros(300);
/// let _f: Bvf<u8, 1> = (&d).into();
/// ```
/// Twin that differs only in the offending call:
/// ```no_run
/// use bva::*;
/// let d = Bvd::zeros(300);
/// let _f: Bvf<u8, 1> = (&d).try_into().unwrap();
/// ```
pub struct NoFromIntoFixed;

/// The word-type trait cannot be named (and therefore not implemented) outside the crate.
/// ```compile_fail,E0603
/// use bva::utils::Integer;
/// ```
/// ```no_run
/// use bva::BitVector;
/// ```
pub struct IntegerIsSealed;

/// A borrowed operand cannot be mutated through the operator traits.
/// ```compile_fail,E0596
/// use bva::*;
/// let a = Bvd::zeros(8);
/// let r = &a;
/// r.push(Bit::One);
/// ```
/// ```no_run
/// use bva::*;
/// let mut a = Bvd::zeros(8);
/// let r = &mut a;
/// r.push(Bit::One);
/// ```
pub struct SharedBorrowIsImmutable;
'''
    src = "//! Generated by rules/matrix.py - compile-only witness of the bva impl matrix. Never run.\n#![allow(clippy::all)]\nuse bva::*;\n\n" \
          + "\n".join(fns) + neg
    return src, n


def run(ctx, rep, parts):
    src, n = generate(parts)
    os.makedirs(os.path.join(WITNESS, "src"), exist_ok=True)
    with open(os.path.join(WITNESS, "Cargo.toml"), "w") as fh:
        fh.write('[package]\nname = "bva-witness"\nversion = "0.0.0"\nedition = "2021"\n\n[workspace]\n\n[lib]\ndoctest = true\n\n'
                 '[dependencies]\nbva = { path = "%s" }\n' % ctx.repo)
    with open(os.path.join(WITNESS, "src", "lib.rs"), "w") as fh:
        fh.write(src)
    lock = os.path.join(ctx.repo, "Cargo.lock")
    env = dict(os.environ, CARGO_NET_OFFLINE="true")
    tgt = os.path.join(WITNESS, "target")
    env["CARGO_TARGET_DIR"] = tgt
    r = subprocess.run(["cargo", "check", "--offline", "--lib"], cwd=WITNESS, env=env, stdout=subprocess.PIPE,
                       stderr=subprocess.STDOUT, text=True)
    key = "witness crate (%s)" % "+".join(parts)
    if r.returncode == 0:
        rep.ok("MATRIX", key, "%d operator/comparison/conversion forms type-check with the ascribed result types (cargo check, never run)" % n)
    else:
        errs = [l for l in r.stdout.splitlines() if l.startswith("error")][:6]
        first = r.stdout[r.stdout.find("error"):][:1500]
        rep.violation("MATRIX", key, "the witness crate no longer type-checks: a form of the impl matrix is missing or has another result type: %s"
                      % "; ".join(errs), detail=first)
    rep.count("MATRIX forms ascribed", n)
    # negative witnesses (compile_fail doctests + compiling twins), nightly so that the error codes are checked
    r = subprocess.run(["cargo", "+nightly", "test", "--offline", "--doc"], cwd=WITNESS,
                       env=dict(env, CARGO_TARGET_DIR=os.path.join(WITNESS, "target-nightly")),
                       stdout=subprocess.PIPE, stderr=subprocess.STDOUT, text=True)
    ok = r.returncode == 0 and "test result: ok" in r.stdout
    import re
    m = re.search(r"test result: (\w+)\. (\d+) passed; (\d+) failed", r.stdout)
    if ok:
        rep.ok("MATRIX-NEG", "compile_fail witnesses", "negative facts hold: %s doctests (compile_fail with error code + compiling twins; no_run, nothing of bva is executed)"
               % (m.group(2) if m else "?"))
    else:
        rep.violation("MATRIX-NEG", "compile_fail witnesses", "a negative witness compiles or a twin fails: %s" % r.stdout[-800:])
    # impl table cross-check: Output of every operator impl is the LHS's underlying type
    crate = ctx.crate("dbg")
    bad = []
    cnt = 0
    for imp in crate.impls:
        h = imp["hdr"]
        tr = h.get("trait", "").split("::")[-1]
        if tr in ("Add", "Sub", "Mul", "Div", "Rem", "BitAnd", "BitOr", "BitXor", "Shl", "Shr", "Not"):
            fam = mir.ty_family(h["self"])
            if fam not in ("Bvf", "Bvd", "Bv"):
                continue
            out = [it for it in imp["items"] if it["name"] == "Output"]
            cnt += 1
            if not out:
                bad.append("%s: no Output" % imp["path"])
                continue
            want = mir.short_ty(h["self"]).lstrip("&")
            got = mir.short_ty(out[0]["ty"])
            if got != want:
                bad.append("%s for %s has Output = %s" % (tr, mir.short_ty(h["self"]), got))
    if bad:
        rep.violation("MATRIX-TABLE", "operator Output types", "; ".join(bad[:5]))
    else:
        rep.ok("MATRIX-TABLE", "operator Output types", "%d operator impls: Output is the left operand's own type" % cnt)
    rep.floor("operator impls in the impl table", cnt, 600)
    shutil.rmtree(os.path.join(WITNESS, "target-nightly", "debug", "incremental"), ignore_errors=True)
