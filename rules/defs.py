"""DEFS: the small definitional functions and constants that the other rule families take as given
(interprocedural summaries of depth 1): `len`, `capacity`, `capacity_from_bit_len`, `int_len`,
the length-masked accessors `get_int`, `significant_bits`, `is_empty`, `repeat`, the unit
constants and the per-type `Constants`. Each is matched against its defining equation, so that
"capacity()" in a GUARD rule, "int_len" in an UNWRAP rule or "BIT_UNIT" in a MASK rule mean what
the rules assume they mean.
"""
from . import mir, guard
from .mir import show, is_call, is_bin

SELF = ("param", "self")
SELF_LEN = ("field", SELF, "length")
WIDTH = {"u8": 8, "u16": 16, "u32": 32, "u64": 64, "u128": 128, "usize": 64}


def _size_of(e):
    return is_call(e, "size_of") and not e[3]


def _bits_of_J(e):
    """size_of::<J>() * 8"""
    return is_bin(e, "Mul") and _size_of(e[2]) and e[3] == ("int", 8)


def _ceil_div(e, num_pred, den_pred):
    """(num + den - 1) / den"""
    if is_call(e, "div_ceil") and len(e[3]) == 2:
        return num_pred(e[3][0]) and den_pred(e[3][1])
    if not is_bin(e, "Div") or not den_pred(e[3]):
        return False
    n = e[2]
    return is_bin(n, "Sub") and n[3] == ("int", 1) and is_bin(n[2], "Add") and num_pred(n[2][2]) and den_pred(n[2][3])


def canon_bits(e):
    """`size_of::<T>() * 8` (either order) -> T::BITS, so that both spellings of a word width compare equal"""
    if not isinstance(e, tuple) or not e:
        return e
    if is_bin(e, "Mul"):
        for x, y in ((e[2], e[3]), (e[3], e[2])):
            if _size_of(x) and y == ("int", 8) and len(x) > 4 and x[4]:
                return ("assoc", "BITS", "Constants::BITS", (x[4][0],))
    if e[0] == "assoc" and e[1] == "BITS" and len(e) > 3:
        return ("assoc", "BITS", "Constants::BITS", e[3])
    if e[0] == "cast" and e[2] == "usize":
        inner = canon_bits(e[1])
        if inner[0] == "assoc" and inner[1] == "BITS":
            return inner
        return ("cast", inner, e[2])
    return tuple(canon_bits(y) if isinstance(y, tuple) else y for y in e)


def _bits_of(e, T=None):
    e = canon_bits(e)
    return e[0] == "assoc" and e[1] == "BITS" and len(e) > 3 and (T is None or e[3] == (T,))


def _pool(crate, b):
    """every expression of the body: the returned value, each call, and the bodies of the closures they mention
    (captures replaced by the captured expressions)"""
    from . import storage
    out = [b.return_expr()]
    for bb, t, fn in b.iter_calls():
        out.append(b.e_call(t))
    seen = set()
    k = 0
    while k < len(out):
        for x in mir.walk(out[k]):
            if isinstance(x, tuple) and x[:1] == ("closure",) and len(x) == 3 and x[1] not in seen:
                seen.add(x[1])
                sc = storage.subst_closure(crate, x)
                if sc is not None:
                    out.append(sc[0])
                    for bb, t, fn in sc[1].iter_calls():
                        out.append(sc[1].e_call(t))
        k += 1
    return out


def accessor(crate, b, inner_name):
    """Length-masked accessor `get_int(idx)` / `set_int(idx, v)` of a vector, judged on three facts rather than on its
    layout: (1) the storage word is accessed through the slice-level accessor at the same idx, (2) the value is ANDed
    with mask(self.length - idx * J::BITS), (3) the slice-level access happens only where idx * J::BITS < self.length.
    -> (verdict, message); forms the rule cannot read (access inside a closure, another API) are undecided."""
    idx = ("param", b.local_name(2))
    inner = []
    for bb, t, fn in b.iter_calls():
        if fn and fn["name"] == inner_name:
            e = b.e_call(t)
            if e[0] == "call" and e[3] and mir.contains(e[3][0], lambda x: x == ("field", SELF, "data")):
                inner.append((bb, e))
    if not inner:
        return "undecided", "%s does not reach the storage through the slice-level %s in its own body: not decided" % (b.name, inner_name)
    J = None
    for bb, e in inner:
        if not mir.lin_eq(e[3][1], idx):
            return "violation", "storage is accessed at `%s`, not at idx" % show(e[3][1])
        if len(e) > 4 and e[4]:
            J = e[4][-1]
    want = canon_bits(("bin", "Sub", SELF_LEN, ("bin", "Mul", idx, ("assoc", "BITS", "Constants::BITS", (J,)))))
    masks = []
    for x in _pool(crate, b):
        for y in mir.walk(x):
            if is_bin(y, "BitAnd"):
                for a, m in ((y[2], y[3]), (y[3], y[2])):
                    if is_call(m, "mask") and len(m[3]) == 1:
                        masks.append((a, canon_bits(m[3][0]), m))
    if not masks:
        return "violation", "the word is not masked with mask(self.length - idx * BITS)"
    good = [m for m in masks if mir.lin_eq(m[1], want) and (len(m[2]) <= 4 or not m[2][4] or m[2][4][-1] == J)]
    if not good:
        return "violation", "the word is masked with mask(%s), not mask(self.length - idx * %s::BITS)" % (show(masks[0][1]), J)
    if inner_name == "set_int":
        val = ("param", b.local_name(3))
        for bb, e in inner:
            v = e[3][-1]
            if not any(is_bin(v, "BitAnd") and ((v[2] == val and v[3] == m[2]) or (v[3] == val and v[2] == m[2])) for m in good):
                return "violation", "stored value `%s` is not v & mask(self.length - idx*BITS)" % show(v)
    # (3) guard
    lhs = canon_bits(("bin", "Mul", idx, ("assoc", "BITS", "Constants::BITS", (J,))))
    for bb, e in inner:
        doms = guard.edges_dominating(b, bb)
        ok = False
        related = []
        for sb, cond, taken, _, _ in doms:
            for op, x, y in guard.relations_on_edge(cond, taken):
                x, y = canon_bits(x), canon_bits(y)
                if op == "Lt" and mir.lin_eq(x, lhs) and mir.lin_eq(y, SELF_LEN):
                    ok = True
                elif op == "Lt" and mir.lin_eq(x, idx) and is_call(y, "int_len") and y[3] == (SELF,) and (len(y) <= 4 or not y[4] or y[4][-1] == J):
                    ok = True
                elif mir.contains(x, lambda z: z == idx) and mir.contains(y, lambda z: z == SELF_LEN or is_call(z, ("len", "int_len"))):
                    related.append("%s %s %s" % (show(x), op, show(y)))
        if ok:
            continue
        if not doms:
            return "violation", "no guard idx * BITS < self.length" if inner_name == "get_int" else "the write is not guarded by idx*BITS < self.length"
        if related:
            return "violation", "guarded by `%s`, which is not idx * %s::BITS < self.length" % (related[0], J)
        return "undecided", "the conditions dominating the storage access (%s) are not in a form this rule reads" % "; ".join(show(c)[:40] for _, c, _, _, _ in doms[:2])
    return "pass", "%s(idx) accesses storage word idx, masked with mask(len - idx*BITS), only where idx*BITS < len" % b.name


def check(crate):
    res = []

    def find(key):
        for b in crate.bodies:
            if b.key == key:
                return b
        return None

    def add(b, key, ok, good, bad):
        res.append((b, "DEFS " + key, "pass" if ok else "violation", good if ok else bad))

    # --- len / is_empty / capacity ------------------------------------------------------------
    for fam, key in (("Bvf", "<Bvf<I, N> as BitVector>::len"), ("Bvd", "<Bvd as BitVector>::len")):
        b = find(key)
        if b is None:
            add(None, key, False, "", "function not found")
            continue
        r = b.return_expr()
        add(b, key, r == SELF_LEN, "len() = self.length", "len() returns %s" % show(r))
    b = find("BitVector::is_empty")
    if b is not None:
        r = b.return_expr()
        ok = is_bin(r, "Eq") and is_call(r[2], "len") and r[3] == ("int", 0)
        add(b, "BitVector::is_empty", ok, "is_empty() = (len() == 0)", "is_empty() returns %s" % show(r))
    b = find("Bvf<I, N>::capacity")
    if b is not None:
        r = b.return_expr()
        ok = is_bin(r, "Mul") and r[3] == ("cparam", "N") and (
            (is_bin(r[2], "Mul") and _size_of(r[2][2]) and r[2][3] == ("int", 8)) or (r[2][0] == "assoc" and r[2][1] == "BIT_UNIT"))
        add(b, "Bvf::capacity", ok, "capacity() = size_of::<I>() * 8 * N", "capacity() returns %s" % show(r))
    b = find("<Bvf<I, N> as BitVector>::capacity")
    if b is not None:
        r = b.return_expr()
        add(b, "<Bvf as BitVector>::capacity", guard.is_capacity_call(r), "capacity(&self) = Bvf::<I, N>::capacity()", "returns %s" % show(r))
    b = find("<Bvd as BitVector>::capacity")
    if b is not None:
        r = b.return_expr()
        ok = is_bin(r, "Mul") and is_call(r[2], "len") and r[2][3] == (("field", SELF, "data"),) and r[3][0] == "assoc" and r[3][1] == "BIT_UNIT"
        add(b, "<Bvd as BitVector>::capacity", ok, "capacity(&self) = self.data.len() * BIT_UNIT", "returns %s" % show(r))
    # --- capacity_from_bit_len -----------------------------------------------------------------
    b = find("Bvf<I, N>::capacity_from_bit_len")
    if b is not None:
        r = b.return_expr()
        p = ("param", b.local_name(1))
        ok = _ceil_div(r, lambda x: x == p, lambda x: x[0] == "assoc" and x[1] == "BIT_UNIT")
        add(b, "Bvf::capacity_from_bit_len", ok, "ceil(bit_length / BIT_UNIT)", "returns %s" % show(r))
    b = find("Bvd::capacity_from_byte_len")
    if b is not None:
        r = b.return_expr()
        p = ("param", b.local_name(1))
        ok = _ceil_div(r, lambda x: x == p, _size_of)
        add(b, "Bvd::capacity_from_byte_len", ok, "ceil(byte_length / size_of::<u64>())", "returns %s" % show(r))
    b = find("Bvd::capacity_from_bit_len")
    if b is not None:
        r = b.return_expr()
        p = ("param", b.local_name(1))
        ok = is_call(r, "capacity_from_byte_len") and r[3][0] == ("bin", "Div", ("bin", "Add", p, ("int", 7)), ("int", 8))
        add(b, "Bvd::capacity_from_bit_len", ok, "capacity_from_byte_len((bit_length + 7) / 8)", "returns %s" % show(r))
    # --- int_len / get_int (length-masked accessors) -------------------------------------------------
    for fam, key in (("Bvf", "<Bvf<I, N> as IArray>::int_len"), ("Bvd", "<Bvd as IArray>::int_len")):
        b = find(key)
        if b is None:
            add(None, key, False, "", "function not found")
            continue
        r = b.return_expr()
        ok = _ceil_div(r, lambda x: x == SELF_LEN or (is_call(x, "len") and x[3] == (SELF,)),
                       lambda x: _bits_of_J(x) or _bits_of(x, "J"))
        add(b, key, ok, "int_len::<J>() = ceil(len / (size_of::<J>() * 8))", "returns %s" % show(r))
    for fam, key in (("Bvf", "<Bvf<I, N> as IArray>::get_int"), ("Bvd", "<Bvd as IArray>::get_int")):
        b = find(key)
        if b is None:
            add(None, key, False, "", "function not found")
            continue
        v, why = accessor(crate, b, "get_int")
        if v == "pass":
            # every path that skips the storage read returns None
            r = b.return_expr()
            alts = r[2] if r[0] == "phi" else (r,)
            if not any(show(a).endswith("None") for a in alts):
                v, why = "violation", "get_int never returns None: %s" % show(r)[:100]
        res.append((b, "DEFS " + key, v, why if v != "pass" else
                    "get_int(idx) = Some(word & mask(len - idx*BITS)) iff idx*BITS < len, else None"))
    # --- significant_bits, repeat ---------------------------------------------------------------------------
    b = find("BitVector::significant_bits")
    if b is not None:
        r = b.return_expr()
        ok = is_bin(r, "Sub") and is_call(r[2], "len") and is_call(r[3], "leading_zeros") and r[2][3] == (SELF,) and r[3][3] == (SELF,)
        add(b, "BitVector::significant_bits", ok, "significant_bits() = len() - leading_zeros()", "returns %s" % show(r))
    b = find("BitVector::repeat")
    if b is not None:
        r = b.return_expr()
        alts = r[2] if r[0] == "phi" else (r,)
        names = sorted(a[1] for a in alts if a[0] == "call")
        n = ("param", b.local_name(2))
        ok = names == ["ones", "zeros"] and all(a[3] == (n,) for a in alts)
        zero_arm = False
        for sb, cond, ts, fs in guard.cond_edges(b):
            if is_bin(cond, "Eq") and show(cond[3]).endswith("Zero") or (is_bin(cond, "Eq") and show(cond[2]).endswith("Zero")):
                # the true edge leads to zeros(..)
                for cb, t, fn in b.iter_calls():
                    if fn and fn["name"] == "zeros" and b.edge_dominates((sb, ts), cb):
                        zero_arm = True
        add(b, "BitVector::repeat", ok and zero_arm, "repeat(bit, n) = zeros(n) if bit == Zero else ones(n)", "repeat returns %s" % show(r))
    # --- unit constants --------------------------------------------------------------------------------------
    for fam, pre in (("Bvf", "Bvf<I, N>"), ("Bvd", "Bvd")):
        for name, mult in (("BYTE_UNIT", 1), ("NIBBLE_UNIT", 2), ("BIT_UNIT", 8)):
            b = find("%s::%s" % (pre, name))
            if b is None:
                add(None, "%s::%s" % (pre, name), False, "", "constant not found")
                continue
            r = mir.strip_casts(b.return_expr())
            if mult == 1:
                ok = _size_of(r)
            else:
                ok = (is_bin(r, "Mul") and (_size_of(r[2]) or (r[2][0] == "assoc" and r[2][1] == "BYTE_UNIT")) and r[3] == ("int", mult)) or \
                     (fam == "Bvd" and name == "BIT_UNIT" and r[0] == "assoc" and r[1] == "BITS")
            add(b, "%s::%s" % (pre, name), ok, "%s = size_of::<word>() * %d" % (name, mult), "%s = %s" % (name, show(b.return_expr())))
    for ty, w in WIDTH.items():
        for name in ("ZERO", "ONE", "MIN", "MAX", "BITS"):
            b = find("<%s as Constants>::%s" % (ty, name))
            if b is None:
                add(None, "<%s as Constants>::%s" % (ty, name), False, "", "constant not found")
                continue
            r = mir.strip_casts(b.return_expr())
            if name == "ZERO":
                ok = r == ("int", 0)
            elif name == "ONE":
                ok = r == ("int", 1)
            else:
                ok = r[0] == "assoc" and r[1] == name and ty in (r[2] or "")
            add(b, "<%s as Constants>::%s" % (ty, name), ok, "%s::%s as in core" % (ty, name), "%s::%s = %s" % (ty, name, show(b.return_expr())))
    return res
