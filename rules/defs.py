"""DEFS: the small definitional functions and constants that the other rule families take as given
(interprocedural summaries of depth 1): `len`, `capacity`, `capacity_from_bit_len`, `int_len`,
the length-masked accessors `get_int`, `significant_bits`, `is_empty`, `repeat`, the unit
constants and the per-type `Constants`. Each is matched against its defining equation, so that
"capacity()" in a GUARD rule, "int_len" in an UNWRAP rule or "BIT_UNIT" in a MASK rule mean what
the rules assume they mean.
"""
from . import mir, guard
from .mir import show, is_call, is_bin

SELF = ("param", "self")
SELF_LEN = ("field", SELF, "length")
WIDTH = {"u8": 8, "u16": 16, "u32": 32, "u64": 64, "u128": 128, "usize": 64}


def _size_of(e):
    return is_call(e, "size_of") and not e[3]


def _bits_of_J(e):
    """size_of::<J>() * 8"""
    return is_bin(e, "Mul") and _size_of(e[2]) and e[3] == ("int", 8)


def _ceil_div(e, num_pred, den_pred):
    """(num + den - 1) / den"""
    if not is_bin(e, "Div") or not den_pred(e[3]):
        return False
    n = e[2]
    return is_bin(n, "Sub") and n[3] == ("int", 1) and is_bin(n[2], "Add") and num_pred(n[2][2]) and den_pred(n[2][3])


def check(crate):
    res = []

    def find(key):
        for b in crate.bodies:
            if b.key == key:
                return b
        return None

    def add(b, key, ok, good, bad):
        res.append((b, "DEFS " + key, "pass" if ok else "violation", good if ok else bad))

    # --- len / is_empty / capacity ------------------------------------------------------------
    for fam, key in (("Bvf", "<Bvf<I, N> as BitVector>::len"), ("Bvd", "<Bvd as BitVector>::len")):
        b = find(key)
        if b is None:
            add(None, key, False, "", "function not found")
            continue
        r = b.return_expr()
        add(b, key, r == SELF_LEN, "len() = self.length", "len() returns %s" % show(r))
    b = find("BitVector::is_empty")
    if b is not None:
        r = b.return_expr()
        ok = is_bin(r, "Eq") and is_call(r[2], "len") and r[3] == ("int", 0)
        add(b, "BitVector::is_empty", ok, "is_empty() = (len() == 0)", "is_empty() returns %s" % show(r))
    b = find("Bvf<I, N>::capacity")
    if b is not None:
        r = b.return_expr()
        ok = is_bin(r, "Mul") and r[3] == ("cparam", "N") and is_bin(r[2], "Mul") and _size_of(r[2][2]) and r[2][3] == ("int", 8)
        add(b, "Bvf::capacity", ok, "capacity() = size_of::<I>() * 8 * N", "capacity() returns %s" % show(r))
    b = find("<Bvf<I, N> as BitVector>::capacity")
    if b is not None:
        r = b.return_expr()
        add(b, "<Bvf as BitVector>::capacity", guard.is_capacity_call(r), "capacity(&self) = Bvf::<I, N>::capacity()", "returns %s" % show(r))
    b = find("<Bvd as BitVector>::capacity")
    if b is not None:
        r = b.return_expr()
        ok = is_bin(r, "Mul") and is_call(r[2], "len") and r[2][3] == (("field", SELF, "data"),) and r[3][0] == "assoc" and r[3][1] == "BIT_UNIT"
        add(b, "<Bvd as BitVector>::capacity", ok, "capacity(&self) = self.data.len() * BIT_UNIT", "returns %s" % show(r))
    # --- capacity_from_bit_len -----------------------------------------------------------------
    b = find("Bvf<I, N>::capacity_from_bit_len")
    if b is not None:
        r = b.return_expr()
        p = ("param", b.local_name(1))
        ok = _ceil_div(r, lambda x: x == p, lambda x: x[0] == "assoc" and x[1] == "BIT_UNIT")
        add(b, "Bvf::capacity_from_bit_len", ok, "ceil(bit_length / BIT_UNIT)", "returns %s" % show(r))
    b = find("Bvd::capacity_from_byte_len")
    if b is not None:
        r = b.return_expr()
        p = ("param", b.local_name(1))
        ok = _ceil_div(r, lambda x: x == p, _size_of)
        add(b, "Bvd::capacity_from_byte_len", ok, "ceil(byte_length / size_of::<u64>())", "returns %s" % show(r))
    b = find("Bvd::capacity_from_bit_len")
    if b is not None:
        r = b.return_expr()
        p = ("param", b.local_name(1))
        ok = is_call(r, "capacity_from_byte_len") and r[3][0] == ("bin", "Div", ("bin", "Add", p, ("int", 7)), ("int", 8))
        add(b, "Bvd::capacity_from_bit_len", ok, "capacity_from_byte_len((bit_length + 7) / 8)", "returns %s" % show(r))
    # --- int_len / get_int (length-masked accessors) -------------------------------------------------
    for fam, key in (("Bvf", "<Bvf<I, N> as IArray>::int_len"), ("Bvd", "<Bvd as IArray>::int_len")):
        b = find(key)
        if b is None:
            add(None, key, False, "", "function not found")
            continue
        r = b.return_expr()
        ok = _ceil_div(r, lambda x: x == SELF_LEN or (is_call(x, "len") and x[3] == (SELF,)), _bits_of_J)
        add(b, key, ok, "int_len::<J>() = ceil(len / (size_of::<J>() * 8))", "returns %s" % show(r))
    for fam, key in (("Bvf", "<Bvf<I, N> as IArray>::get_int"), ("Bvd", "<Bvd as IArray>::get_int")):
        b = find(key)
        if b is None:
            add(None, key, False, "", "function not found")
            continue
        idx = ("param", b.local_name(2))
        r = b.return_expr()
        alts = r[2] if r[0] == "phi" else (r,)
        none_ok = any(show(a).endswith("None") for a in alts)
        some = [a for a in alts if is_call(a, "map")]
        ok = none_ok and len(some) == 1 and len(alts) == 2
        msg = ""
        if ok:
            m = some[0]
            inner = m[3][0]
            ok = is_call(inner, "get_int") and inner[3][1] == idx and mir.contains(inner[3][0], lambda x: x == ("field", SELF, "data"))
            if not ok:
                msg = "word is not read from self.data at idx: %s" % show(inner)
        if ok:
            from . import storage
            sc = storage.subst_closure(crate, some[0][3][1]) if some[0][3][1][0] == "closure" else None
            okc = False
            if sc is not None:
                body_e, cb = sc
                v = ("param", cb.local_name(2))
                if is_bin(body_e, "BitAnd"):
                    for a, mm in ((body_e[2], body_e[3]), (body_e[3], body_e[2])):
                        if a == v and is_call(mm, "mask") and is_bin(mm[3][0], "Sub") and mm[3][0][2] == SELF_LEN \
                                and is_bin(mm[3][0][3], "Mul") and idx in (mm[3][0][3][2], mm[3][0][3][3]):
                            okc = True
            ok = okc
            if not ok:
                msg = "the word is not masked with mask(self.length - idx * BITS)"
        if ok:
            g = False
            for sb, cond, ts, fs in guard.cond_edges(b):
                if is_bin(cond, "Lt") and is_bin(cond[2], "Mul") and idx in (cond[2][2], cond[2][3]) and cond[3] == SELF_LEN:
                    g = True
            ok = g
            if not ok:
                msg = "no guard idx * BITS < self.length"
        add(b, key, ok, "get_int(idx) = Some(word & mask(len - idx*BITS)) iff idx*BITS < len, else None",
            msg or "get_int has an unexpected shape: %s" % show(r)[:120])
    # --- significant_bits, repeat ---------------------------------------------------------------------------
    b = find("BitVector::significant_bits")
    if b is not None:
        r = b.return_expr()
        ok = is_bin(r, "Sub") and is_call(r[2], "len") and is_call(r[3], "leading_zeros") and r[2][3] == (SELF,) and r[3][3] == (SELF,)
        add(b, "BitVector::significant_bits", ok, "significant_bits() = len() - leading_zeros()", "returns %s" % show(r))
    b = find("BitVector::repeat")
    if b is not None:
        r = b.return_expr()
        alts = r[2] if r[0] == "phi" else (r,)
        names = sorted(a[1] for a in alts if a[0] == "call")
        n = ("param", b.local_name(2))
        ok = names == ["ones", "zeros"] and all(a[3] == (n,) for a in alts)
        zero_arm = False
        for sb, cond, ts, fs in guard.cond_edges(b):
            if is_bin(cond, "Eq") and show(cond[3]).endswith("Zero") or (is_bin(cond, "Eq") and show(cond[2]).endswith("Zero")):
                # the true edge leads to zeros(..)
                for cb, t, fn in b.iter_calls():
                    if fn and fn["name"] == "zeros" and b.edge_dominates((sb, ts), cb):
                        zero_arm = True
        add(b, "BitVector::repeat", ok and zero_arm, "repeat(bit, n) = zeros(n) if bit == Zero else ones(n)", "repeat returns %s" % show(r))
    # --- unit constants --------------------------------------------------------------------------------------
    for fam, pre in (("Bvf", "Bvf<I, N>"), ("Bvd", "Bvd")):
        for name, mult in (("BYTE_UNIT", 1), ("NIBBLE_UNIT", 2), ("BIT_UNIT", 8)):
            b = find("%s::%s" % (pre, name))
            if b is None:
                add(None, "%s::%s" % (pre, name), False, "", "constant not found")
                continue
            r = mir.strip_casts(b.return_expr())
            if mult == 1:
                ok = _size_of(r)
            else:
                ok = (is_bin(r, "Mul") and _size_of(r[2]) and r[3] == ("int", mult)) or \
                     (fam == "Bvd" and name == "BIT_UNIT" and r[0] == "assoc" and r[1] == "BITS")
            add(b, "%s::%s" % (pre, name), ok, "%s = size_of::<word>() * %d" % (name, mult), "%s = %s" % (name, show(b.return_expr())))
    for ty, w in WIDTH.items():
        for name in ("ZERO", "ONE", "MIN", "MAX", "BITS"):
            b = find("<%s as Constants>::%s" % (ty, name))
            if b is None:
                add(None, "<%s as Constants>::%s" % (ty, name), False, "", "constant not found")
                continue
            r = mir.strip_casts(b.return_expr())
            if name == "ZERO":
                ok = r == ("int", 0)
            elif name == "ONE":
                ok = r == ("int", 1)
            else:
                ok = r[0] == "assoc" and r[1] == name and ty in (r[2] or "")
            add(b, "<%s as Constants>::%s" % (ty, name), ok, "%s::%s as in core" % (ty, name), "%s::%s = %s" % (ty, name, show(b.return_expr())))
    return res
