"""Model of the fact file: bodies, pruned CFGs, dominance/path queries and
expression reconstruction (DESIGN §3, S1/S2/S3).

Expressions are nested tuples:
  ('int', n)                     integer literal (value known)
  ('assoc', NAME, qual)          associated / named constant (BIT_UNIT, ZERO, MAX, BITS ...)
  ('cparam', NAME)               const generic parameter (N)
  ('const', text)                any other constant
  ('param', name)                function parameter
  ('var', name)                  multiply-assigned / mutably borrowed local (named leaf)
  ('phi', name, (e1, e2, ..))    immutable local assigned once on each of several paths
  ('field', base, name)          field access (tuple fields are '0', '1', ...)
  ('variant', base, Name)        enum downcast
  ('index', base, idx)
  ('bin', Op, a, b)              Op in Add Sub Mul Div Rem BitAnd BitOr BitXor Shl Shr Lt Le Gt Ge Eq Ne
  ('ovf', Op, a, b)              the overflow flag of a checked arithmetic
  ('un', Op, a)                  Not Neg PtrMetadata
  ('cast', a, ty)
  ('call', name, qual, (args..)) qual = resolved path if resolved else trait/inherent path
  ('agg', adt, variant, (fields..)) / ('tuple', (..)) / ('array', (..)) / ('repeat', e, n)
  ('closure', path)
  ('discr', e)
  ('unknown', text)
References and derefs are erased.
"""
import json
import os
import re
from collections import defaultdict

BINOPS = {
    "Add": "Add", "AddUnchecked": "Add", "AddWithOverflow": "Add",
    "Sub": "Sub", "SubUnchecked": "Sub", "SubWithOverflow": "Sub",
    "Mul": "Mul", "MulUnchecked": "Mul", "MulWithOverflow": "Mul",
    "Div": "Div", "Rem": "Rem", "BitXor": "BitXor", "BitAnd": "BitAnd", "BitOr": "BitOr",
    "Shl": "Shl", "ShlUnchecked": "Shl", "Shr": "Shr", "ShrUnchecked": "Shr",
    "Eq": "Eq", "Lt": "Lt", "Le": "Le", "Ne": "Ne", "Ge": "Ge", "Gt": "Gt", "Cmp": "Cmp", "Offset": "Offset",
}
OP_TRAIT_METHODS = {
    "add": "Add", "sub": "Sub", "mul": "Mul", "div": "Div", "rem": "Rem",
    "bitand": "BitAnd", "bitor": "BitOr", "bitxor": "BitXor", "shl": "Shl", "shr": "Shr",
}
CMP_TRAIT_METHODS = {"eq": "Eq", "ne": "Ne", "lt": "Lt", "le": "Le", "gt": "Gt", "ge": "Ge"}
OPASSIGN_METHODS = {
    "add_assign": "Add", "sub_assign": "Sub", "mul_assign": "Mul", "div_assign": "Div", "rem_assign": "Rem",
    "bitand_assign": "BitAnd", "bitor_assign": "BitOr", "bitxor_assign": "BitXor",
    "shl_assign": "Shl", "shr_assign": "Shr",
}
SYM = {"Add": "+", "Sub": "-", "Mul": "*", "Div": "/", "Rem": "%", "BitAnd": "&", "BitOr": "|", "BitXor": "^",
       "Shl": "<<", "Shr": ">>", "Lt": "<", "Le": "<=", "Gt": ">", "Ge": ">=", "Eq": "==", "Ne": "!="}


def _load_census():
    path = os.path.join(os.path.dirname(os.path.abspath(__file__)), "census.json")
    try:
        with open(path) as fh:
            return set(json.load(fh)["functions"])
    except OSError:
        return None


CENSUS = _load_census()


def norm_expr(e):
    """bottom-up rewriting of equivalent spellings to one form:
         a - min(a, b) / a - min(b, a)                    -> saturating_sub(a, b)
         unwrap_or(copied(x), v) / unwrap_or(cloned(x), v) -> unwrap_or(x, v)
         map_or(x, d, |s| s)                              -> unwrap_or(x, d)
         phi{ c | (x as Some).0 }  (match x {Some(v) => v, None => c}) -> unwrap_or(x, c)"""
    if not isinstance(e, tuple) or not e:
        return e
    e = tuple(norm_expr(x) if isinstance(x, tuple) else x for x in e)
    if e[0] == "bin" and e[1] in ("Add", "Sub", "Mul") and e[2][:1] == ("int",) and e[3][:1] == ("int",):
        # literal arithmetic (`BITS_PER_BYTE - 1` once the named constant is replaced by its value)
        v = e[2][1] + e[3][1] if e[1] == "Add" else e[2][1] * e[3][1] if e[1] == "Mul" else e[2][1] - e[3][1]
        if 0 <= v < (1 << 64):
            return ("int", v)
    if e[0] == "bin" and e[1] == "Sub" and is_call(e[3], "min") and len(e[3][3]) == 2 and e[2] in e[3][3]:
        other = e[3][3][1] if e[3][3][0] == e[2] else e[3][3][0]
        return ("call", "saturating_sub", None, (e[2], other), ())
    if is_call(e, "unwrap_or") and len(e[3]) == 2 and is_call(e[3][0], ("copied", "cloned")) and len(e[3][0][3]) == 1:
        return ("call", "unwrap_or", e[2], (e[3][0][3][0], e[3][1]), e[4] if len(e) > 4 else ())
    if is_call(e, "map_or") and len(e[3]) == 3 and isinstance(e[3][2], tuple) and e[3][2][:1] == ("closure",):
        return ("call", "unwrap_or", e[2], (e[3][0], e[3][1]), e[4] if len(e) > 4 else ())
    if e[0] == "bin" and e[1] in ("Eq", "Ne") and is_call(e[2], ("cmp", "partial_cmp")) and len(e[2][3]) == 2 \
            and isinstance(e[3], tuple) and e[3][0] == "agg" and e[3][1] == "Ordering":
        # a.cmp(&b) != Less  ->  a >= b, etc.
        a, c = e[2][3]
        table = {("Ne", "Less"): "Ge", ("Eq", "Less"): "Lt", ("Ne", "Greater"): "Le", ("Eq", "Greater"): "Gt",
                 ("Eq", "Equal"): "Eq", ("Ne", "Equal"): "Ne"}
        op = table.get((e[1], e[3][2]))
        if op:
            return ("bin", op, a, c)
    if is_call(e, "from_elem") and len(e[3]) == 2:
        # vec![x; n]  ==  repeat(x).take(n).collect()
        return ("call", "collect", None, (("call", "take", None, (("call", "repeat", None, (e[3][0],), ()), e[3][1]), ()),), ())
    if e[0] == "phi" and len(e[2]) == 2:
        for some, dflt in ((e[2][0], e[2][1]), (e[2][1], e[2][0])):
            if some[0] == "field" and some[2] == "0" and some[1][0] == "variant" and some[1][2] == "Some" \
                    and not contains(dflt, lambda x: x == some[1][1]):
                return ("call", "unwrap_or", None, (some[1][1], dflt), ())
    return e


KEEP_CONSTS = ("BIT_UNIT", "BYTE_UNIT", "NIBBLE_UNIT", "BITS", "ZERO", "ONE", "MIN", "MAX")
FOREIGN_BASE = 1000000


def rebase_locals(e, off, h=None, host=None):
    """add `off` to the local ids inside ('var', name, id) / ('iv', id) nodes of a helper's expression"""
    if not isinstance(e, tuple) or not e:
        return e
    if e[0] == "iv" and len(e) == 2 and isinstance(e[1], int):
        return ("iv", _rebase_id(e[1], off, h, host))
    if e[0] == "var" and len(e) == 3 and isinstance(e[2], int):
        return ("var", e[1], _rebase_id(e[2], off, h, host))
    return tuple(rebase_locals(y, off, h, host) if isinstance(y, tuple) else y for y in e)


def _rebase_id(i, off, h, host):
    if i >= FOREIGN_BASE and h is not None and host is not None:
        # the helper itself spliced in another helper: re-register that one with the host
        f = h.foreign_of(i)
        if f:
            outer = host.foreign_of(off + 1)[2]
            off2 = host.register_foreign(("nested", off, i // FOREIGN_BASE), f[0], lambda x, a=f[2], o=outer: o(a(x)))
            return off2 + f[1]
        return i
    return off + i


def subst_types(e, tymap):
    """rename type parameters inside the type slots of an expression (call type arguments, associated-constant owners, cast targets)"""
    pat = re.compile(r"\b(%s)\b" % "|".join(re.escape(k) for k in sorted(tymap, key=len, reverse=True)))

    def ty(t):
        return pat.sub(lambda m: tymap[m.group(1)], t) if isinstance(t, str) else t

    def go(x):
        if not isinstance(x, tuple) or not x:
            return x
        if x[0] == "call" and len(x) >= 5:
            return ("call", x[1], x[2], tuple(go(a) for a in x[3]), tuple(ty(t) for t in x[4])) + tuple(x[5:])
        if x[0] == "assoc" and len(x) > 3:
            return ("assoc", x[1], x[2], tuple(ty(t) for t in x[3]))
        if x[0] == "cast" and len(x) == 3:
            return ("cast", go(x[1]), ty(x[2]))
        return tuple(go(y) if isinstance(y, tuple) else y for y in x)

    return go(e)


def subst_expr(e, mapping):
    if not isinstance(e, tuple):
        return e
    if e in mapping:
        return mapping[e]
    return tuple(subst_expr(y, mapping) if isinstance(y, tuple) else y for y in e)


def canonical_field_names(facts):
    """The rules speak of the two fields of Bvf / Bvd as `data` (the storage words) and `length` (the bit length). The
    fields are identified by their types (the array / boxed slice of words, the usize) and renamed to those canonical
    names in the facts, so that renaming a private field is not mistaken for a lost anchor. -> {adt: {actual: canonical}}"""
    ren = {}
    for a in facts.get("adts", []):
        if a["path"].split("::")[-1] not in ("Bvf", "Bvd") or a.get("kind") != "Struct" or len(a["variants"]) != 1:
            continue
        fs = a["variants"][0]["fields"]
        words = [f for f in fs if re.match(r"^(\[.*;.*\]|std::boxed::Box<\[.*\].*>|std::vec::Vec<.*>)$", f["ty"])]
        lens = [f for f in fs if f["ty"] == "usize"]
        if len(fs) == 2 and len(words) == 1 and len(lens) == 1:
            m = {}
            if words[0]["name"] != "data":
                m[words[0]["name"]] = "data"
            if lens[0]["name"] != "length":
                m[lens[0]["name"]] = "length"
            if m:
                ren[a["path"]] = m
                for f in fs:
                    f["name"] = m.get(f["name"], f["name"])
    if not ren:
        return ren

    def fix(x):
        if isinstance(x, dict):
            adt = x.get("adt")
            if isinstance(adt, str) and adt in ren:
                if "fname" in x:
                    x["fname"] = ren[adt].get(x["fname"], x["fname"])
                if "fnames" in x:
                    x["fnames"] = [ren[adt].get(n, n) for n in x["fnames"]]
            for v in x.values():
                fix(v)
        elif isinstance(x, list):
            for v in x:
                fix(v)

    for b in facts["bodies"]:
        fix(b.get("blocks"))
    return ren


def canonical_helper_names(crate):
    """The rules speak of two private word-count helpers by name: capacity_from_byte_len (Bvd) and capacity_from_bit_len
    (Bvf, Bvd). When no function of that name exists, a private one-argument function of the type with the defining equation
    (ceil(n / BIT_UNIT); ceil(n / size_of::<u64>()); byte_len((n + 7) / 8) or ceil(n / 64)) is taken to be it under another
    name and is renamed in the facts (its body and every call site), so that renaming a private helper is not mistaken for
    lost anchors. -> {new name: canonical name}"""
    done = {}

    def ceil_div(e, num, den_pred):
        if is_call(e, "div_ceil") and len(e[3]) == 2:
            return e[3][0] == num and den_pred(e[3][1])
        if not (is_bin(e, "Div") and den_pred(e[3])):
            return False
        n = e[2]
        return is_bin(n, "Sub") and n[3] == ("int", 1) and is_bin(n[2], "Add") and n[2][2] == num and den_pred(n[2][3])

    def is_unit(x):
        x = strip_casts(x)
        return x[0] == "assoc" and x[1] in ("BIT_UNIT", "BITS")

    def is_size(x):
        return is_call(x, "size_of") and not x[3]

    def rename(b, canon):
        old_path, old_name = b.path, b.name
        new_path = old_path[: len(old_path) - len(old_name)] + canon if old_path.endswith(old_name) else old_path
        for c in crate.bodies:
            for blk in c.blocks:
                t = blk["term"]
                if t["t"] == "call" and t["f"].get("k") == "const" and "fn" in t["f"]:
                    fn = t["f"]["fn"]
                    res = fn.get("res") or {}
                    if fn.get("path") == old_path or res.get("path") == old_path:
                        fn["name"] = canon
                        if fn.get("path") == old_path:
                            fn["path"] = new_path
                        if res.get("path") == old_path:
                            res["path"] = new_path
            c._expr_cache = {}
        b.name, b.path = canon, new_path
        b.raw["name"], b.raw["path"] = canon, new_path
        done[old_name] = canon

    # the unit constants: BYTE_UNIT = size_of::<word>(), NIBBLE_UNIT = 2 * that, BIT_UNIT = 8 * that (or word::BITS)
    def rename_const(b, canon):
        old_path, old_name = b.path, b.name
        new_path = old_path[: len(old_path) - len(old_name)] + canon if old_path.endswith(old_name) else old_path

        def fix(x):
            if isinstance(x, dict):
                if x.get("uneval") == old_path and x.get("uneval_name") == old_name:
                    x["uneval"], x["uneval_name"] = new_path, canon
                for v in x.values():
                    fix(v)
            elif isinstance(x, list):
                for v in x:
                    fix(v)

        for c in crate.bodies:
            fix(c.blocks)
            c._expr_cache = {}
        b.name, b.path = canon, new_path
        b.raw["name"], b.raw["path"] = canon, new_path
        done[old_name] = canon

    for fam in ("Bvf", "Bvd"):
        consts = [b for b in crate.bodies if b.self_family == fam and b.kind.startswith("AssocConst") and not b.trait]
        for canon, mult in (("BYTE_UNIT", 1), ("NIBBLE_UNIT", 2), ("BIT_UNIT", 8)):
            if any(b.name == canon for b in consts):
                continue
            cands = []
            for b in consts:
                if b.name in ("BYTE_UNIT", "NIBBLE_UNIT", "BIT_UNIT"):
                    continue
                r = strip_casts(b.return_expr())
                if mult == 1:
                    ok = is_size(r)
                else:
                    ok = is_bin(r, "Mul") and ((is_size(r[2]) and r[3] == ("int", mult)) or (is_size(r[3]) and r[2] == ("int", mult)))
                    if mult == 8 and r[0] == "assoc" and r[1] == "BITS":
                        ok = True
                if ok:
                    cands.append(b)
            if len(cands) == 1:
                rename_const(cands[0], canon)
    # the canonicaliser of the fixed type: mod2n(&mut self, n) - a private method that only `&=`-s every word with a mask
    if not any(b.name == "mod2n" and b.self_family == "Bvf" for b in crate.bodies):
        cands = []
        for b in crate.bodies:
            if b.self_family != "Bvf" or b.kind != "AssocFn" or b.arg_count != 2 or b.trait or b.vis.startswith("Public") or not b.loops():
                continue
            names = [fn["name"] for bb, t, fn in b.iter_calls() if fn]
            if "bitand_assign" in names and "mask" in names and all(n in ("into_iter", "iter_mut", "enumerate", "next", "min", "mask", "bitand_assign",
                                                                           "saturating_sub", "len", "deref_mut", "index_mut") for n in names):
                cands.append(b)
        if len(cands) == 1:
            rename(cands[0], "mod2n")
    for fam, canon in (("Bvd", "capacity_from_byte_len"), ("Bvf", "capacity_from_bit_len"), ("Bvd", "capacity_from_bit_len")):
        if any(b.name == canon and b.self_family == fam and b.kind == "AssocFn" for b in crate.bodies):
            continue
        cands = []
        for b in crate.bodies:
            if b.self_family != fam or b.kind != "AssocFn" or b.arg_count != 1 or b.trait or b.vis.startswith("Public") or b.loops():
                continue
            if short_ty(b.local_ty(1)) != "usize" or short_ty(b.local_ty(0)) != "usize":
                continue
            p = ("param", b.local_name(1))
            r = b.return_expr()
            if canon == "capacity_from_byte_len":
                ok = ceil_div(r, p, is_size)
            elif fam == "Bvf":
                ok = ceil_div(r, p, is_unit)
            else:
                bytes_ = ("bin", "Div", ("bin", "Add", p, ("int", 7)), ("int", 8))
                ok = (is_call(r, "capacity_from_byte_len") and len(r[3]) == 1 and r[3][0] == bytes_) or ceil_div(r, p, is_unit) \
                    or ceil_div(r, p, lambda x: x == ("int", 64)) or ceil_div(r, bytes_, is_size)
            if ok:
                cands.append(b)
        if len(cands) == 1:
            rename(cands[0], canon)
    return done


class Crate:
    def new_helper(self, fn):
        """Body of the callee when it is a function of this crate that did not exist on the reviewed tree
        (rules/census.json): a helper introduced by a later edit. Rules see through such helpers (their return
        expression / storage events are inlined at the call site) instead of treating them as unknown calls."""
        if not fn or CENSUS is None:
            return None
        res = fn.get("res") or {}
        if not (fn.get("local") or res.get("local")):
            return None
        for path in (res.get("path"), fn.get("path")):
            if path and path not in CENSUS:
                b = self.body(path)
                if b is not None and b.kind in ("Fn", "AssocFn"):
                    return b
        return None

    def __init__(self, facts, config=None):
        self.facts = facts
        self.config = config
        self.macros = facts["macros"]
        self.debug_assertions = facts["debug_assertions"]
        self.overflow_checks = facts["overflow_checks"]
        self.field_renames = canonical_field_names(facts)
        self.bodies = [Body(self, b) for b in facts["bodies"]]
        self.by_path = defaultdict(list)
        for b in self.bodies:
            self.by_path[b.path].append(b)
        self.adts = {a["path"]: a for a in facts["adts"]}
        self.impls = facts["impls"]
        self.closures_of = defaultdict(list)
        for b in self.bodies:
            if b.kind == "Closure":
                self.closures_of[b.parent].append(b)
        self.helper_aliases = canonical_helper_names(self)
        if self.helper_aliases:
            self.by_path = defaultdict(list)
            for b in self.bodies:
                b._expr_cache = {}
                b.__dict__.pop("_shapes", None)
                self.by_path[b.path].append(b)

    @staticmethod
    def load(path, config=None):
        with open(path) as fh:
            return Crate(json.load(fh), config)

    def body(self, path):
        bs = self.by_path.get(path)
        if not bs:
            return None
        return bs[0]

    def find(self, pred):
        return [b for b in self.bodies if pred(b)]

    def macro_chain(self, mx):
        if mx is None:
            return []
        return self.macros[mx].split("|")


def short_ty(t):
    """'fixed::Bvf<I/#0, N/#1>' -> 'Bvf<I, N>' ; erase region noise"""
    t = re.sub(r"/#\d+", "", t)
    t = re.sub(r"'\{erased\} ?", "", t)
    t = re.sub(r"'[a-z_]+ ", "", t)
    t = re.sub(r"\b(?:[a-z_][a-z0-9_]*::)+", "", t)
    t = re.sub(r"_usize\b", "", t)
    return t


def ty_family(t):
    """Coarse family of a (possibly reference) type string: Bvf / Bvd / Bv / uint / other."""
    s = short_ty(t).lstrip("&").strip()
    if s.startswith("mut "):
        s = s[4:]
    if s.startswith("Bvf<"):
        return "Bvf"
    if s == "Bvd":
        return "Bvd"
    if s == "Bv":
        return "Bv"
    if s in ("u8", "u16", "u32", "u64", "u128", "usize"):
        return "uint"
    return s


CHECKED_ARITH = {"checked_sub": "Sub", "checked_add": "Add", "checked_mul": "Mul"}


def _norm_field(base, name):
    """field projection with the idiom normalisations that make equivalent spellings compare equal:
       (a, b).0                                   -> a            (match on a tuple of operands)
       (x.checked_sub(y)? ).0 / (.. as Some).0     -> x - y        (the success value of checked arithmetic; the failing
                                                                   case leaves through the other arm, so the difference
                                                                   exists only where it cannot underflow)"""
    if base[0] == "tuple" and name.isdigit() and int(name) < len(base[1]):
        return base[1][int(name)]
    if base[0] == "variant" and name == "0":
        inner, var = base[1], base[2]
        if var == "Continue" and inner[0] == "call" and inner[1] == "branch" and len(inner[3]) == 1:
            inner, var = inner[3][0], "Some"
        if var == "Some" and inner[0] == "call" and inner[1] in CHECKED_ARITH and len(inner[3]) == 2:
            return ("bin", CHECKED_ARITH[inner[1]], inner[3][0], inner[3][1])
    return ("field", base, name)


class Body:
    def __init__(self, crate, raw):
        self.crate = crate
        self.raw = raw
        self.path = raw["path"]
        self.kind = raw["kind"]
        self.name = raw.get("name", "{closure}")
        self.file = raw["file"]
        self.line = raw["line"]
        self.line_hi = raw["line_hi"]
        self.vis = raw.get("vis", "")
        self.impl = raw.get("impl")
        self.impl_path = raw.get("impl_path")
        self.impl_line = raw.get("impl_line")
        self.parent = raw.get("parent")
        self.arg_count = raw["arg_count"]
        self.locals = raw["locals"]
        self.blocks = raw["blocks"]
        self.mx = raw.get("mx")
        self.trait_default_of = raw.get("trait_default_of")
        self._succ = None
        self._pred = None
        self._defs = None
        self._expr_cache = {}
        self._const_locals = None

    # ---- identity helpers -------------------------------------------------
    @property
    def self_ty(self):
        return short_ty(self.impl["self"]) if self.impl else None

    @property
    def self_family(self):
        return ty_family(self.impl["self"]) if self.impl else None

    @property
    def trait(self):
        if self.impl and "trait" in self.impl:
            return self.impl["trait"].split("::")[-1]
        return None

    @property
    def trait_args(self):
        """generic args of the trait ref beyond Self, shortened"""
        if self.impl and "trait_args" in self.impl:
            return [short_ty(a) for a in self.impl["trait_args"][1:]]
        return []

    @property
    def key(self):
        """Semantic key: '<Self as Trait<Args>>::name' or 'Self::name' -- no line numbers."""
        if self.kind == "Closure":
            return short_ty(self.path)
        if self.impl:
            if self.trait:
                a = self.trait_args
                tr = self.trait + ("<%s>" % ", ".join(a) if a else "")
                return "<%s as %s>::%s" % (self.self_ty, tr, self.name)
            return "%s::%s" % (self.self_ty, self.name)
        return short_ty(self.path)

    def where(self):
        s = "%s:%d" % (self.file, self.line)
        ch = self.crate.macro_chain(self.mx)
        if ch:
            s += " (expanded from %s)" % ch[-1]
        return s

    def local_name(self, l):
        f = self.foreign_of(l)
        if f:
            return f[0].local_name(f[1])
        d = self.locals[l]
        return d.get("name") or "_%d" % l

    def local_ty(self, l):
        f = self.foreign_of(l)
        if f:
            return f[0].local_ty(f[1])
        return self.locals[l]["ty"]

    # ---- locals of helpers whose events were spliced into this body (storage._inline_helper) -----------------
    def foreign_of(self, l):
        """(helper body, its local id, translation of its expressions into this body's terms) for a local id that
        stands for a helper's local/iterator inside spliced events; None for this body's own locals"""
        if isinstance(l, int) and l >= FOREIGN_BASE:
            k, i = divmod(l, FOREIGN_BASE)
            fs = self.__dict__.get("_foreign", [])
            if k - 1 < len(fs):
                return fs[k - 1][1], i, fs[k - 1][2]
        return None

    def register_foreign(self, key, h, tr):
        """reserve an id range for the locals of helper h; returns the offset to add to h's local ids"""
        fs = self.__dict__.setdefault("_foreign", [])
        for k, f in enumerate(fs):
            if f[0] == key:
                return FOREIGN_BASE * (k + 1)
        fs.append((key, h, tr))
        return FOREIGN_BASE * len(fs)

    # ---- CFG ----------------------------------------------------------------
    def term(self, b):
        return self.blocks[b]["term"]

    def const_bool_locals(self):
        """locals whose only definition is `const true|false` (cfg!(debug_assertions) etc.)"""
        if self._const_locals is None:
            res = {}
            defs = self.defs
            for l, ds in defs.items():
                full = [d for d in ds if d[0] == "full"]
                if len(full) == 1 and len(ds) == 1 and full[0][1] == "stmt":
                    st = self.blocks[full[0][2]]["st"][full[0][3]]
                    r = st["r"]
                    if r["k"] == "use" and r["o"]["k"] == "const" and r["o"]["ty"] == "bool" and "int" in r["o"]:
                        res[l] = int(r["o"]["int"])
            self._const_locals = res
        return self._const_locals

    def raw_succ(self, b):
        t = self.term(b)
        k = t["t"]
        if k in ("goto", "drop", "falseedge", "falseunwind", "assert"):
            return [t["to"]]
        if k == "call":
            return [t["to"]] if "to" in t else []
        if k == "switch":
            d = t["d"]
            # prune switches on literal constants
            cl = self.const_bool_locals()
            val = None
            if d["k"] == "const" and "int" in d:
                val = int(d["int"])
            elif d["k"] in ("copy", "move") and not d["p"]["pr"] and d["p"]["l"] in cl:
                val = cl[d["p"]["l"]]
            if val is not None:
                for v, tb in t["tg"]:
                    if int(v) == val:
                        return [tb]
                return [t["ow"]]
            out = []
            for v, tb in t["tg"]:
                if tb not in out:
                    out.append(tb)
            if t["ow"] not in out:
                out.append(t["ow"])
            return out
        return []

    @property
    def succ(self):
        if self._succ is None:
            self._succ = {}
            for b in range(len(self.blocks)):
                if self.blocks[b]["cleanup"]:
                    self._succ[b] = []
                else:
                    self._succ[b] = [s for s in self.raw_succ(b)]
            # reachable only
            seen = set()
            st = [0]
            while st:
                x = st.pop()
                if x in seen:
                    continue
                seen.add(x)
                st.extend(self._succ[x])
            self.reachable = seen
            self._pred = defaultdict(list)
            for b in seen:
                for s in self._succ[b]:
                    self._pred[s].append(b)
        return self._succ

    @property
    def pred(self):
        self.succ
        return self._pred

    def reachable_blocks(self):
        self.succ
        return self.reachable

    UNMODELLED_ITERATION = ("split_at_mut", "split_at", "split_first_mut", "split_last_mut", "chunks", "chunks_mut", "chunks_exact",
                            "chunks_exact_mut", "rchunks", "rchunks_mut", "windows", "chain", "scan", "step_by", "flat_map", "fold", "try_fold",
                            "copy_within", "rotate_left", "rotate_right", "swap_with_slice")

    def unmodelled_iteration(self):
        """names of slice / iterator constructs in this body whose index arithmetic the desugaring does not model (split
        slices, chunked walks, chained or folded iterators, in-place block moves). Shape rules that would otherwise report
        'the expected loop is not there' use this to say undecided instead."""
        if "_unmodelled" not in self.__dict__:
            self.__dict__["_unmodelled"] = sorted({fn["name"] for bb, t, fn in self.iter_calls() if fn and fn["name"] in self.UNMODELLED_ITERATION})
        return self.__dict__["_unmodelled"]

    def reachable_from(self, a):
        """blocks reachable from block a (a itself included)"""
        cache = self.__dict__.setdefault("_reach_from", {})
        if a not in cache:
            seen, todo = {a}, [a]
            while todo:
                x = todo.pop()
                for y in self.succ[x]:
                    if y not in seen:
                        seen.add(y)
                        todo.append(y)
            cache[a] = seen
        return cache[a]

    def is_unreachable_block(self, b):
        return self.term(b)["t"] == "unreachable"

    def return_blocks(self):
        return [b for b in self.reachable_blocks() if self.term(b)["t"] == "ret"]

    def panic_blocks(self):
        """blocks ending in a diverging call (panic) reachable in the pruned CFG"""
        out = []
        for b in self.reachable_blocks():
            t = self.term(b)
            if t["t"] == "call" and "to" not in t:
                out.append(b)
        return out

    def reach_avoiding(self, start_blocks, avoid_blocks=(), avoid_edges=()):
        """set of blocks reachable from start_blocks without entering avoid_blocks / using avoid_edges"""
        avoid_blocks = set(avoid_blocks)
        avoid_edges = set(avoid_edges)
        seen = set()
        st = [b for b in start_blocks if b not in avoid_blocks]
        while st:
            x = st.pop()
            if x in seen:
                continue
            seen.add(x)
            for s in self.succ[x]:
                if s in avoid_blocks or (x, s) in avoid_edges:
                    continue
                st.append(s)
        return seen

    def block_dominates(self, a, b):
        """every path entry->b passes through block a"""
        if a == b:
            return True
        return b not in self.reach_avoiding([0], avoid_blocks=[a])

    def edge_dominates(self, edge, b):
        """every path entry->b uses the CFG edge (s,t)"""
        if b not in self.reachable_blocks():
            return True
        return b not in self.reach_avoiding([0], avoid_edges=[edge])

    def loc_dominates(self, la, lb):
        """location (bb, idx) la dominates lb; idx = statement index, terminator = len(st)"""
        if la[0] == lb[0]:
            if la[1] <= lb[1]:
                return True
            # same block, later statement: only dominates through a loop - not dominance
            return False
        return self.block_dominates(la[0], lb[0])

    def must_pass_to_return(self, from_loc, via_locs):
        """Every path from from_loc to a Return passes through one of via_locs (strictly after from_loc).
        Returns (True, None) or (False, offending return block)."""
        fb, fi = from_loc
        via_by_block = defaultdict(list)
        for (b, i) in via_locs:
            via_by_block[b].append(i)
        # same block, later statement
        if any(i > fi for i in via_by_block.get(fb, [])):
            return True, None
        blocked = set(via_by_block.keys())
        # blocks containing a via loc are 'blocked' entirely (entering them at the top passes the via loc)
        seen = set()
        st = [s for s in self.succ[fb]]
        while st:
            x = st.pop()
            if x in seen or x in blocked:
                continue
            seen.add(x)
            if self.term(x)["t"] == "ret":
                return False, x
            st.extend(self.succ[x])
        if self.term(fb)["t"] == "ret":
            return False, fb
        return True, None

    def loops(self):
        """natural loops: list of (header, set(body blocks)) via back edges (t->h where h dominates t)"""
        res = []
        for b in self.reachable_blocks():
            for s in self.succ[b]:
                if self.block_dominates(s, b):
                    # back edge b->s
                    body = {s}
                    st = [b]
                    while st:
                        x = st.pop()
                        if x in body:
                            continue
                        body.add(x)
                        st.extend(self.pred[x])
                    res.append((s, body))
        return res

    # ---- definitions -----------------------------------------------------------
    @property
    def defs(self):
        """local -> list of ('full'|'partial'|'mutref', 'stmt'|'call', bb, idx)"""
        if self._defs is None:
            d = defaultdict(list)
            for b, blk in enumerate(self.blocks):
                if blk["cleanup"]:
                    continue
                for i, st in enumerate(blk["st"]):
                    if st["s"] == "assign":
                        p = st["p"]
                        if not (p["pr"] and p["pr"][0] == "*"):
                            d[p["l"]].append(("full" if not p["pr"] else "partial", "stmt", b, i))
                        r = st["r"]
                        if r["k"] in ("ref", "rawptr") and (r.get("m") or r["k"] == "rawptr"):
                            rp = r["p"]
                            # a mutable borrow of (a place inside) a local that is not behind a deref
                            if not (rp["pr"] and rp["pr"][0] == "*"):
                                d[rp["l"]].append(("mutref", "stmt", b, i))
                    elif st["s"] == "setdiscr":
                        d[st["p"]["l"]].append(("partial", "stmt", b, i))
                t = blk["term"]
                if t["t"] == "call":
                    p = t["d"]
                    if not (p["pr"] and p["pr"][0] == "*"):
                        d[p["l"]].append(("full" if not p["pr"] else "partial", "call", b, len(blk["st"])))
            self._defs = d
        return self._defs

    def full_defs(self, l):
        if self.foreign_of(l):
            return []
        return [x for x in self.defs.get(l, []) if x[0] == "full"]

    def is_param(self, l):
        return 1 <= l <= self.arg_count

    # ---- expression reconstruction ---------------------------------------------
    def e_const(self, o):
        if "fn" in o:
            f = o["fn"]
            return ("fnref", f["name"], callee_qual(f))
        if "uneval_name" in o and o["uneval_name"]:
            # a private named constant introduced for readability (`const BITS_PER_BYTE: usize = 8`) stands for its value:
            # constants other than the unit / word constants the rules know by role are replaced by their (pure) definition
            if o["uneval_name"] not in KEEP_CONSTS and not o.get("promoted") and getattr(self, "_const_depth", 0) < 4:
                cb = self.crate.body(o.get("uneval", "")) if hasattr(self.crate, "by_path") else None
                if cb is not None and cb is not self and (cb.kind.startswith("AssocConst") or cb.kind.startswith("Const")) and not cb.loops():
                    self._const_depth = getattr(self, "_const_depth", 0) + 1
                    try:
                        r = cb.return_expr()
                    finally:
                        self._const_depth -= 1
                    if not contains(r, lambda x: isinstance(x, tuple) and x[:1] in (("var",), ("unknown",), ("param",))):
                        return r
            qual = short_ty(o.get("uneval", ""))
            ua = tuple(short_ty(re.sub(r"/#\d+", "", a)) for a in (o.get("uargs") or ()))
            return ("assoc", o["uneval_name"], qual, ua) if ua else ("assoc", o["uneval_name"], qual)
        if "tyconst" in o:
            return ("cparam", re.sub(r"/#\d+", "", o["tyconst"]))
        if "int" in o and o["ty"] not in ("bool", "char"):
            return ("int", int(o["int"]))
        if o["ty"] == "bool" and "int" in o:
            return ("const", "true" if o["int"] == "1" else "false")
        if o["ty"] == "char":
            return ("const", o["v"])
        return ("const", o["v"])

    def e_operand(self, o, depth=0, visiting=None):
        if o["k"] == "const":
            return self.e_const(o)
        if o["k"] in ("copy", "move"):
            return self.e_place(o["p"], depth, visiting)
        return ("unknown", str(o)[:60])

    def e_place(self, p, depth=0, visiting=None):
        e = self._e_place(p, depth, visiting)
        return norm_expr(self.canon_iv(e)) if depth == 0 else e

    def _e_place(self, p, depth=0, visiting=None):
        l = p["l"]
        pr = p["pr"]
        # overflow tuples: (_26.0) of a checked op
        base = None
        start = 0
        if pr and isinstance(pr[0], dict) and "f" in pr[0] and pr[0].get("adt") == "tuple":
            fd = self.full_defs(l)
            if len(fd) == 1 and fd[0][1] == "stmt":
                st = self.blocks[fd[0][2]]["st"][fd[0][3]]
                r = st["r"]
                if r["k"] == "bin" and r["op"].endswith("WithOverflow"):
                    a = self.e_operand(r["a"], depth + 1, visiting)
                    b = self.e_operand(r["b"], depth + 1, visiting)
                    base = ("bin" if pr[0]["f"] == 0 else "ovf", BINOPS[r["op"]], a, b)
                    start = 1
        if base is None and pr and isinstance(pr[0], dict) and "f" in pr[0] and pr[0].get("adt") == "tuple":
            # `match (a, b) { (X(p), Y(q)) => .. }`: the scrutinee tuple is built once and its fields are only
            # re-borrowed afterwards (never assigned): field k is the k-th operand of the aggregate
            ds = self.defs.get(l, [])
            fd = [d for d in ds if d[0] == "full"]
            if len(fd) == 1 and fd[0][1] == "stmt" and not [d for d in ds if d[0] == "partial"] and not self.is_param(l):
                st = self.blocks[fd[0][2]]["st"][fd[0][3]]
                r = st["r"]
                if r["k"] == "agg" and r.get("ak") == "tuple" and pr[0]["f"] < len(r["fs"]):
                    base = self.e_operand(r["fs"][pr[0]["f"]], depth + 1, visiting)
                    start = 1
        if base is None:
            base = self.e_local(l, depth, visiting)
        for el in pr[start:]:
            if el == "*":
                continue
            if "f" in el:
                name = el.get("fname") or str(el["f"])
                if base[0] == "ivopt" and name == "0":
                    base = ("iv", base[1])
                else:
                    base = _norm_field(base, name)
            elif "i" in el:
                base = ("index", base, self.e_local(el["i"], depth + 1, visiting))
            elif "ci" in el:
                base = ("index", base, ("int", el["ci"]) if not el["fe"] else ("fromend", el["ci"]))
            elif "dc" in el:
                base = ("variant", base, el["dc"])
                if (el["dc"] == "Some" and base[1][0] == "call" and base[1][1] in ("next", "next_back")
                        and len(base[1][3]) == 1 and base[1][3][0][0] == "var"):
                    base = ("ivopt", base[1][3][0][2])
            elif "sub_from" in el:
                base = ("subslice", base, el["sub_from"], el["sub_to"], el["fe"])
            else:
                base = ("proj?", base, str(el))
        return base

    def inlinable(self, l):
        ds = self.defs.get(l, [])
        full = [d for d in ds if d[0] == "full"]
        other = [d for d in ds if d[0] != "full"]
        if self.is_param(l):
            return None
        if other:
            return None
        if not full:
            return None
        decl = self.locals[l]
        if len(full) == 1:
            return full
        if decl["user"] and decl["mut"]:
            return None
        return full

    def e_local(self, l, depth=0, visiting=None):
        e = self._e_local(l, depth, visiting)
        return norm_expr(self.canon_iv(e)) if depth == 0 else e

    def _e_local(self, l, depth=0, visiting=None):
        if l in self._expr_cache:
            return self._expr_cache[l]
        if self.is_param(l):
            return ("param", self.local_name(l))
        if depth > 60:
            return ("var", self.local_name(l), l)
        visiting = visiting or frozenset()
        if l in visiting:
            return ("var", self.local_name(l), l)
        full = self.inlinable(l)
        if not full:
            return ("var", self.local_name(l), l)
        v2 = visiting | {l}
        exprs = []
        for d in full:
            exprs.append(self.e_def(d, depth + 1, v2))
        if len(exprs) == 1:
            e = exprs[0]
        else:
            uniq = []
            for x in exprs:
                if x not in uniq:
                    uniq.append(x)
            e = uniq[0] if len(uniq) == 1 else ("phi", self.local_name(l), tuple(uniq))
        if not visiting:
            self._expr_cache[l] = e
        return e

    def init_expr(self, l):
        """expression of the (single) full definition of a local, even if it is later mutated"""
        f = self.foreign_of(l)
        if f:
            e = f[0].init_expr(f[1])
            return f[2](e) if e is not None else None
        full = self.full_defs(l)
        if len(full) != 1:
            return None
        return norm_expr(self.canon_iv(self.e_def(full[0], 1, frozenset([l]))))

    def e_def(self, d, depth, visiting):
        e = self._e_def(d, depth, visiting)
        return norm_expr(self.canon_iv(e)) if depth <= 1 else e

    def _e_def(self, d, depth, visiting):
        _, kind, b, i = d
        if kind == "stmt":
            st = self.blocks[b]["st"][i]
            return self.e_rvalue(st["r"], depth, visiting)
        t = self.blocks[b]["term"]
        return self.e_call(t, depth, visiting)

    def e_call(self, t, depth=0, visiting=None):
        e = self._e_call(t, depth, visiting)
        return norm_expr(self.canon_iv(e)) if depth == 0 else e

    def _e_call(self, t, depth=0, visiting=None):
        f = t["f"]
        args = tuple(self.e_operand(a, depth + 1, visiting) for a in t["args"])
        if f["k"] == "const" and "fn" in f:
            fn = f["fn"]
            name = fn["name"]
            qual = callee_qual(fn)
            tr = fn.get("trait", "")
            if tr.startswith("std::ops::") and name in OP_TRAIT_METHODS and len(args) == 2:
                return ("bin", OP_TRAIT_METHODS[name], args[0], args[1])
            if tr == "std::ops::Not" and len(args) == 1:
                return ("un", "Not", args[0])
            if tr in ("std::cmp::PartialEq", "std::cmp::PartialOrd") and name in CMP_TRAIT_METHODS and len(args) == 2:
                return ("bin", CMP_TRAIT_METHODS[name], args[0], args[1])
            targs = tuple(short_ty(a) for a in fn.get("args", []))
            h = self.crate.new_helper(fn) if depth < 30 else None
            if h is not None and h is not self and not h.loops() and len(args) == h.arg_count \
                    and not any(re.match(r"^&(?:'\S+ )?mut ", re.sub(r"'\{erased\} ?", "", h.local_ty(i + 1))) for i in range(h.arg_count)):
                r = h.return_expr()
                unit = r == ("tuple", ()) or (r[0] == "unknown") or (r[0] == "var" and r[1].startswith("_"))
                if not unit and not contains(r, lambda x: isinstance(x, tuple) and x[:1] == ("var",) and len(x) > 2):
                    r = subst_expr(r, {("param", h.local_name(i + 1)): args[i] for i in range(h.arg_count)})
                    # the helper's own type parameters (`fn word<J>`) become the types it is called with
                    gens = [g.split(":")[0] for g in h.raw.get("generics", [])]
                    if gens and len(gens) == len(targs) and any(g != t2 for g, t2 in zip(gens, targs)):
                        r = subst_types(r, dict(zip(gens, targs)))
                    return r
            return ("call", name, qual, args, targs)
        return ("call", "<indirect>", str(self.e_operand(f, depth + 1, visiting)), args, ())

    def e_rvalue(self, r, depth=0, visiting=None):
        e = self._e_rvalue(r, depth, visiting)
        return norm_expr(self.canon_iv(e)) if depth == 0 else e

    def _e_rvalue(self, r, depth=0, visiting=None):
        k = r["k"]
        if k == "use":
            return self.e_operand(r["o"], depth, visiting)
        if k in ("ref", "rawptr", "copyforderef"):
            return self.e_place(r["p"], depth, visiting)
        if k == "bin":
            a = self.e_operand(r["a"], depth + 1, visiting)
            b = self.e_operand(r["b"], depth + 1, visiting)
            op = r["op"]
            if op.endswith("WithOverflow"):
                return ("tuple", (("bin", BINOPS[op], a, b), ("ovf", BINOPS[op], a, b)))
            return ("bin", BINOPS.get(op, op), a, b)
        if k == "un":
            return ("un", r["op"], self.e_operand(r["o"], depth + 1, visiting))
        if k == "cast":
            inner = self.e_operand(r["o"], depth + 1, visiting)
            ck = r["ck"]
            if ck.startswith("PointerCoercion") or ck in ("Transmute", "PtrToPtr", "Subtype"):
                return inner
            return ("cast", inner, short_ty(r["ty"]))
        if k == "discr":
            return ("discr", self.e_place(r["p"], depth + 1, visiting))
        if k == "agg":
            fs = tuple(self.e_operand(o, depth + 1, visiting) for o in r["fs"])
            ak = r["ak"]
            if ak == "adt":
                return ("agg", short_ty(r["adt"]), r["variant"], fs)
            if ak == "tuple":
                return ("tuple", fs)
            if ak == "array":
                return ("array", fs)
            if ak == "closure":
                return ("closure", r["closure"], fs)
            return ("unknown", r.get("s", ak))
        if k == "repeat":
            return ("repeat", self.e_operand(r["o"], depth + 1, visiting), re.sub(r"/#\d+", "", r["n"]))
        return ("unknown", r.get("s", k)[:80])

    # ---- iteration helpers --------------------------------------------------------
    def iter_stmts(self):
        """yield (bb, idx, stmt) over reachable, non-cleanup blocks"""
        for b in sorted(self.reachable_blocks()):
            for i, st in enumerate(self.blocks[b]["st"]):
                yield b, i, st

    def iter_calls(self):
        """yield (bb, term, fninfo|None) for reachable call terminators"""
        for b in sorted(self.reachable_blocks()):
            t = self.term(b)
            if t["t"] == "call":
                f = t["f"]
                yield b, t, (f.get("fn") if f["k"] == "const" else None)

    def iter_asserts(self):
        for b in sorted(self.reachable_blocks()):
            t = self.term(b)
            if t["t"] == "assert":
                yield b, t

    def iter_switches(self):
        for b in sorted(self.reachable_blocks()):
            t = self.term(b)
            if t["t"] == "switch" and len(self.succ[b]) > 1:
                yield b, t

    def switch_cond(self, b):
        """(expr, {succ_block: 'value'}) of the switch terminating block b"""
        t = self.term(b)
        e = self.e_operand(t["d"])
        m = {}
        for v, tb in t["tg"]:
            m.setdefault(tb, []).append(v)
        m.setdefault(t["ow"], []).append("otherwise")
        return e, m

    def call_loc(self, b):
        return (b, len(self.blocks[b]["st"]))

    def return_expr(self):
        return self.e_local(0)

    # ---- loops over iterators ---------------------------------------------------
    def raw_iter_source(self, iter_local):
        e = self.init_expr(iter_local)
        while isinstance(e, tuple) and e[0] == "call" and e[1] == "into_iter" and len(e[3]) == 1:
            e = e[3][0]
        if e is None:
            return ("unknown", "iterator source of %s" % self.local_name(iter_local))
        return e

    def iter_source(self, iter_local):
        """expression the iterator local was initialised from, with into_iter() stripped. Iterators over (slices of)
        storage - iter()/iter_mut(), zip, enumerate, take, skip, rev - are presented as the index range they walk
        (see iter_shape), so that `for w in x.data[..n].iter_mut()` and `for i in 0..n { x.data[i] }` look the same."""
        sh = self.iter_shape(iter_local)
        if sh is not None and not sh["plain_range"]:
            r = ("agg", "Range", "Range", (sh["lo"], sh["hi"]))
            return ("call", "rev", "std::iter::Iterator::rev", (r,), ()) if sh["rev"] else r
        return self.raw_iter_source(iter_local)

    # ---- iterator desugaring -------------------------------------------------------------------------------
    def _slice_bounds(self, s):
        """slice expression -> (base, lo, hi) with hi = None for `to the end`"""
        if is_call(s, ("index", "index_mut")) and len(s[3]) == 2 and s[3][1][0] == "agg":
            base, r = s[3]
            kind = r[1]
            if kind == "Range" and len(r[3]) == 2:
                return base, r[3][0], r[3][1]
            if kind == "RangeTo" and len(r[3]) == 1:
                return base, ("int", 0), r[3][0]
            if kind == "RangeFrom" and len(r[3]) == 1:
                return base, r[3][0], None
            if kind == "RangeFull":
                return base, ("int", 0), None
            return None
        if is_call(s, ("as_ref", "as_mut", "as_slice", "as_mut_slice", "deref", "deref_mut", "borrow", "borrow_mut")) and len(s[3]) == 1:
            return self._slice_bounds(s[3][0])
        if s[0] in ("field", "var", "param"):
            return s, ("int", 0), None
        return None

    def _full_len(self, base):
        """number of elements of the whole storage `base`"""
        if base[0] == "field" and base[2] == "data":
            root = root_of(base)
            ty = None
            if root[0] == "param":
                for l in range(1, self.arg_count + 1):
                    if self.local_name(l) == root[1]:
                        ty = self.local_ty(l)
            elif root[0] == "var" and len(root) > 2:
                ty = self.local_ty(root[2])
            if ty is not None and ty_family(ty) == "Bvf":
                m = re.search(r",\s*([A-Za-z_][A-Za-z0-9_]*|\d+)(?:/#\d+)?\s*>\s*$", re.sub(r"^&(?:'\S+ )?(?:mut )?", "", ty.strip()))
                if m:
                    return ("int", int(m.group(1))) if m.group(1).isdigit() else ("cparam", m.group(1))
        if base[0] == "var" and len(base) > 2:
            m = re.match(r"^\[.*; (.+)\]$", re.sub(r"/#\d+", "", self.local_ty(base[2])))
            if m:
                return ("int", int(m.group(1))) if m.group(1).isdigit() else ("cparam", m.group(1))
        return ("call", "len", None, (base,), ())

    def _shape_of(self, e, depth=0):
        """(n, comp, rev): iteration count, item description as a function of the counter k, reversed flag.
        comp: ('idx', a) value a+k | ('elem', base, a) element base[a+k] | ('count',) | ('tuple', c0, c1)"""
        if depth > 10 or not isinstance(e, tuple):
            return None
        if e[0] == "agg" and e[1] == "Range" and len(e[3]) == 2:
            a, b2 = e[3]
            return (b2 if a == ("int", 0) else ("bin", "Sub", b2, a)), ("idx", a), False
        if (e[0] == "field" and e[2] == "data") or (is_call(e, ("index", "index_mut")) and len(e[3]) == 2 and e[3][1][0] == "agg"):
            # a slice used directly as an iterator (`for w in &x.data[..n]`, `.zip(&rhs.data[..n])`)
            e = ("call", "iter", None, (e,), ())
        if not is_call(e) or not e[3]:
            return None
        nm, args = e[1], e[3]
        if nm in ("into_iter", "copied", "cloned", "by_ref") and len(args) == 1:
            inner = self._shape_of(args[0], depth + 1)
            if inner is not None:
                return inner
            if nm == "into_iter":
                nm = "iter"
            else:
                return None
        if nm in ("iter", "iter_mut"):
            sb = self._slice_bounds(args[0])
            if sb is None:
                return None
            base, lo, hi = sb
            if hi is None:
                hi = self._full_len(base)
            n = hi if lo == ("int", 0) else ("bin", "Sub", hi, lo)
            return n, ("elem", base, lo), False
        if nm == "rev" and len(args) == 1:
            inner = self._shape_of(args[0], depth + 1)
            if inner is None or inner[1][0] == "tuple":
                return None
            return inner[0], inner[1], not inner[2]
        if nm == "enumerate" and len(args) == 1:
            inner = self._shape_of(args[0], depth + 1)
            if inner is None or inner[2]:
                return None
            return inner[0], ("tuple", ("count",), inner[1]), False
        if nm == "zip" and len(args) == 2:
            x, y = self._shape_of(args[0], depth + 1), self._shape_of(args[1], depth + 1)
            if x is None or y is None or x[2] or y[2]:
                return None
            n = x[0] if x[0] == y[0] else ("call", "min", None, (x[0], y[0]), ())
            return n, ("tuple", x[1], y[1]), False
        if nm == "skip" and len(args) == 2:
            inner = self._shape_of(args[0], depth + 1)
            if inner is None or inner[2] or inner[1][0] not in ("idx", "elem"):
                return None
            n, comp, _ = inner
            k = args[1]
            # the walk starts k items later (an over-long skip leaves nothing: the count saturates at zero)
            n2 = ("call", "saturating_sub", None, (n, k), ())
            if comp[0] == "idx":
                return n2, ("idx", k if comp[1] == ("int", 0) else ("bin", "Add", comp[1], k)), False
            return n2, ("elem", comp[1], k if comp[2] == ("int", 0) else ("bin", "Add", comp[2], k)), False
        if nm == "take" and len(args) == 2:
            inner = self._shape_of(args[0], depth + 1)
            if inner is None or inner[2]:
                return None
            n = inner[0] if inner[0] == args[1] else ("call", "min", None, (inner[0], args[1]), ())
            return n, inner[1], False
        return None

    def iter_shape(self, L):
        """dict(lo, hi, rev, plain_range, comp) for the iterator local L, or None when it is not a walk over an index
        range. The meaning of ('iv', L) is: the index value itself for a single Range / slice walk (lo..hi, possibly
        reversed), the 0-based iteration counter (0..n) for zip/enumerate combinations."""
        cache = self.__dict__.setdefault("_shapes", {})
        if L in cache:
            return cache[L]
        cache[L] = None
        sh = self._shape_of(self.raw_iter_source(L))
        res = None
        if sh is not None:
            n, comp, rev = sh
            if comp[0] == "idx":
                a = comp[1]
                res = dict(lo=a, hi=(n if a == ("int", 0) else None), rev=rev, plain_range=True, comp=comp)
            elif comp[0] == "elem":
                base, a = comp[1], comp[2]
                if is_call(n, "saturating_sub") and len(n[3]) == 2 and n[3][1] == a:
                    hi = n[3][0]          # a..h walks nothing when a >= h, exactly like skip(a) over h items
                else:
                    hi = n if a == ("int", 0) else ("bin", "Add", a, n) if not (is_bin(n, "Sub") and n[3] == a) else n[2]
                res = dict(lo=a, hi=hi, rev=rev, plain_range=False, comp=("elem", base, ("int", 0)))
            else:
                res = dict(lo=("int", 0), hi=n, rev=False, plain_range=False, comp=comp)
        cache[L] = res
        return res

    def canon_iv(self, e):
        """rewrite loop items of slice iterators into indexed form: `*w` of `for w in d[..n].iter_mut()` becomes d[iv],
        `(i, w)` of enumerate becomes (iv, d[iv]), the sides of a zip become a[iv] / b[iv]"""
        if not isinstance(e, tuple) or not e:
            return e
        # collect a projection chain ending in ('iv', L)
        sel = []
        probe = e
        while probe[0] == "field" and isinstance(probe[2], str) and probe[2].isdigit():
            sel.append(int(probe[2]))
            probe = probe[1]
        if probe[0] == "iv" and len(probe) == 2:
            sh = self.iter_shape(probe[1])
            if sh is not None and not sh["plain_range"]:
                comp = sh["comp"]
                ok = True
                for k in reversed(sel):
                    if comp[0] == "tuple" and k < 2:
                        comp = comp[1 + k]
                    else:
                        ok = False
                        break
                if ok and comp[0] != "tuple":
                    iv = ("iv", probe[1])
                    if comp[0] == "count":
                        return iv
                    off = comp[1] if comp[0] == "idx" else comp[2]
                    idx = iv if off == ("int", 0) else ("bin", "Add", iv, off)
                    return idx if comp[0] == "idx" else ("index", comp[1], idx)
            return e
        if e[0] == "index" and len(e) == 3:
            # already in indexed form: the counter inside the index must not be expanded a second time
            idx = e[2]
            core = idx[2] if (is_bin(idx, "Add") and idx[2][:1] == ("iv",)) else idx
            if core[:1] == ("iv",) and len(core) == 2:
                sh = self.iter_shape(core[1])
                if sh is not None and not sh["plain_range"]:
                    return ("index", self.canon_iv(e[1]), idx)
        return tuple(self.canon_iv(x) if isinstance(x, tuple) else x for x in e)

    def alloc_exprs(self, _depth=0):
        """every `repeat(x).take(n)` allocation in the body, whatever its spelling (vec![x; n], a helper introduced
        later that wraps it, ...): list of (x, n) in order of appearance, duplicates removed"""
        out = []
        for bb, t, fn in self.iter_calls():
            e = self.e_call(t)
            for x in walk(e):
                if is_call(x, "take") and len(x[3]) == 2 and is_call(x[3][0], "repeat") and x[3][0][3]:
                    item = (x[3][0][3][0], x[3][1])
                    if item not in out:
                        out.append(item)
            # allocations made inside a helper introduced after the review (e.g. a shared `reallocate(&mut self, n)`),
            # with its parameters replaced by the actual arguments
            h = self.crate.new_helper(fn) if _depth < 3 else None
            if h is not None and h is not self:
                args = [self.e_operand(a) for a in t["args"]]
                if len(args) == h.arg_count:
                    mapping = {("param", h.local_name(i + 1)): args[i] for i in range(h.arg_count)}
                    for x, n in h.alloc_exprs(_depth + 1):
                        item = (subst_expr(x, mapping), norm_expr(subst_expr(n, mapping)))
                        if item not in out:
                            out.append(item)
        return out

    def iv_name(self, iter_local):
        """user name bound to the item of `iter_local`'s next(), if any"""
        f = self.foreign_of(iter_local)
        if f:
            return f[0].iv_name(f[1])
        for l, d in enumerate(self.locals):
            if d.get("name") and d["user"]:
                fd = self.full_defs(l)
                if len(fd) == 1 and fd[0][1] == "stmt":
                    st = self.blocks[fd[0][2]]["st"][fd[0][3]]
                    r = st["r"]
                    if r["k"] == "use" and r["o"]["k"] in ("copy", "move"):
                        e = self.e_place(r["o"]["p"])
                        if e == ("iv", iter_local):
                            return d["name"]
        return "iv%d" % iter_local


def callee_qual(fn):
    if "res" in fn:
        return fn["res"]["path"]
    return fn["path"]


def callee_self_ty(fn):
    """Self type of a trait-method call (first generic arg), shortened"""
    if fn.get("trait") and fn["args"]:
        return short_ty(fn["args"][0])
    if "impl" in fn:
        return short_ty(fn["impl"]["self"])
    return None


# ---------------------------------------------------------------------------------
# expression utilities
# ---------------------------------------------------------------------------------

def show(e, top=True):
    """source-like rendering of an expression tree"""
    if not isinstance(e, tuple):
        return str(e)
    k = e[0]
    if k == "int":
        return str(e[1])
    if k == "assoc":
        return e[1]
    if k == "cparam":
        return e[1]
    if k == "const":
        return e[1]
    if k in ("param", "var"):
        return e[1]
    if k == "iv":
        return "iv%d" % e[1]
    if k == "phi":
        return "%s{%s}" % (e[1], " | ".join(show(x) for x in e[2]))
    if k == "field":
        return "%s.%s" % (show(e[1], False), e[2])
    if k == "variant":
        return "(%s as %s)" % (show(e[1]), e[2])
    if k == "index":
        return "%s[%s]" % (show(e[1], False), show(e[2]))
    if k == "bin":
        s = "%s %s %s" % (show(e[2], False), SYM.get(e[1], e[1]), show(e[3], False))
        return s if top else "(" + s + ")"
    if k == "ovf":
        return "overflow(%s %s %s)" % (show(e[2], False), SYM.get(e[1], e[1]), show(e[3], False))
    if k == "un":
        if e[1] == "Not":
            return "!" + show(e[2], False)
        if e[1] == "PtrMetadata":
            return "len(%s)" % show(e[2])
        return "%s(%s)" % (e[1], show(e[2]))
    if k == "cast":
        s = "%s as %s" % (show(e[1], False), e[2])
        return s if top else "(" + s + ")"
    if k == "call":
        return "%s(%s)" % (e[1], ", ".join(show(a) for a in e[3]))
    if k == "fnref":
        return e[1]
    if k == "agg":
        nm = e[1] if e[1].endswith(e[2]) or e[2] == e[1].split("<")[0] else "%s::%s" % (e[1], e[2])
        if not e[3]:
            return nm
        return "%s{%s}" % (nm, ", ".join(show(a) for a in e[3]))
    if k in ("tuple", "array"):
        return "(%s)" % ", ".join(show(a) for a in e[1]) if k == "tuple" else "[%s]" % ", ".join(show(a) for a in e[1])
    if k == "repeat":
        return "[%s; %s]" % (show(e[1]), e[2])
    if k == "closure":
        return "closure<%s>" % e[1].split("::")[-1]
    if k == "discr":
        return "discr(%s)" % show(e[1])
    return "?" + str(e)[:80]


def walk(e):
    """pre-order traversal of all sub-expressions"""
    yield e
    if isinstance(e, tuple):
        for x in e[1:]:
            if isinstance(x, tuple):
                if x and isinstance(x[0], str):
                    yield from walk(x)
                else:
                    for y in x:
                        if isinstance(y, tuple):
                            yield from walk(y)


def contains(e, pred):
    return any(pred(x) for x in walk(e))


def mentions_leaf(e, kind, name):
    return contains(e, lambda x: isinstance(x, tuple) and len(x) >= 2 and x[0] == kind and x[1] == name)


def root_of(e):
    """root leaf of a place-like expression (through field/index/variant)"""
    while isinstance(e, tuple) and e[0] in ("field", "index", "variant", "subslice", "proj?"):
        e = e[1]
    return e


def field_path(e):
    """list of field names from the root to e, ignoring index/variant"""
    out = []
    while isinstance(e, tuple) and e[0] in ("field", "index", "variant", "subslice"):
        if e[0] == "field":
            out.append(e[2])
        e = e[1]
    return list(reversed(out))


def strip_casts(e):
    while isinstance(e, tuple) and e[0] == "cast":
        e = e[1]
    return e


def is_call(e, name=None):
    return isinstance(e, tuple) and e[0] == "call" and (name is None or e[1] == name or (isinstance(name, (set, tuple, list)) and e[1] in name))


def is_bin(e, op=None):
    return isinstance(e, tuple) and e[0] == "bin" and (op is None or e[1] == op or (isinstance(op, (set, tuple, list)) and e[1] in op))


def payload_variant_of(e):
    """(x as V).0 -> V"""
    if isinstance(e, tuple) and e[0] == "field" and e[2] == "0" and e[1][0] == "variant":
        return e[1][2]
    return None


# ---- linear normal form ------------------------------------------------------------------------------------------------
def linear(e):
    """(coefs, const): e as an integer-linear combination of non-additive atoms, so that `n - i - 1`, `n - 1 - i`
    and `n - (i + 1)` compare equal. Atoms are the maximal subexpressions that are not + / - / multiplication by a
    literal; induction variables are renamed to ('iv',) so that local numbering does not matter."""
    coefs = {}
    const = 0

    def add(x, k):
        nonlocal const
        if isinstance(x, tuple) and x:
            if x[0] == "int":
                const += k * x[1]
                return
            if x[0] == "bin" and x[1] in ("Add", "Sub"):
                add(x[2], k)
                add(x[3], k if x[1] == "Add" else -k)
                return
            if x[0] == "bin" and x[1] == "Mul":
                if isinstance(x[2], tuple) and x[2][:1] == ("int",):
                    add(x[3], k * x[2][1])
                    return
                if isinstance(x[3], tuple) and x[3][:1] == ("int",):
                    add(x[2], k * x[3][1])
                    return
                x = ("bin", "Mul") + tuple(sorted((x[2], x[3]), key=repr))     # a * b and b * a are one atom
            if x[0] == "iv":
                x = ("iv",)
        coefs[x] = coefs.get(x, 0) + k

    add(e, 1)
    return {a: c for a, c in coefs.items() if c}, const


def lin_eq(a, b):
    return linear(a) == linear(b)
