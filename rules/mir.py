"""Model of the fact file: bodies, pruned CFGs, dominance/path queries and
expression reconstruction (DESIGN §3, S1/S2/S3).

Expressions are nested tuples:
  ('int', n)                     integer literal (value known)
  ('assoc', NAME, qual)          associated / named constant (BIT_UNIT, ZERO, MAX, BITS ...)
  ('cparam', NAME)               const generic parameter (N)
  ('const', text)                any other constant
  ('param', name)                function parameter
  ('var', name)                  multiply-assigned / mutably borrowed local (named leaf)
  ('phi', name, (e1, e2, ..))    immutable local assigned once on each of several paths
  ('field', base, name)          field access (tuple fields are '0', '1', ...)
  ('variant', base, Name)        enum downcast
  ('index', base, idx)
  ('bin', Op, a, b)              Op in Add Sub Mul Div Rem BitAnd BitOr BitXor Shl Shr Lt Le Gt Ge Eq Ne
  ('ovf', Op, a, b)              the overflow flag of a checked arithmetic
  ('un', Op, a)                  Not Neg PtrMetadata
  ('cast', a, ty)
  ('call', name, qual, (args..)) qual = resolved path if resolved else trait/inherent path
  ('agg', adt, variant, (fields..)) / ('tuple', (..)) / ('array', (..)) / ('repeat', e, n)
  ('closure', path)
  ('discr', e)
  ('unknown', text)
References and derefs are erased.
"""
import json
import re
from collections import defaultdict

BINOPS = {
    "Add": "Add", "AddUnchecked": "Add", "AddWithOverflow": "Add",
    "Sub": "Sub", "SubUnchecked": "Sub", "SubWithOverflow": "Sub",
    "Mul": "Mul", "MulUnchecked": "Mul", "MulWithOverflow": "Mul",
    "Div": "Div", "Rem": "Rem", "BitXor": "BitXor", "BitAnd": "BitAnd", "BitOr": "BitOr",
    "Shl": "Shl", "ShlUnchecked": "Shl", "Shr": "Shr", "ShrUnchecked": "Shr",
    "Eq": "Eq", "Lt": "Lt", "Le": "Le", "Ne": "Ne", "Ge": "Ge", "Gt": "Gt", "Cmp": "Cmp", "Offset": "Offset",
}
OP_TRAIT_METHODS = {
    "add": "Add", "sub": "Sub", "mul": "Mul", "div": "Div", "rem": "Rem",
    "bitand": "BitAnd", "bitor": "BitOr", "bitxor": "BitXor", "shl": "Shl", "shr": "Shr",
}
CMP_TRAIT_METHODS = {"eq": "Eq", "ne": "Ne", "lt": "Lt", "le": "Le", "gt": "Gt", "ge": "Ge"}
OPASSIGN_METHODS = {
    "add_assign": "Add", "sub_assign": "Sub", "mul_assign": "Mul", "div_assign": "Div", "rem_assign": "Rem",
    "bitand_assign": "BitAnd", "bitor_assign": "BitOr", "bitxor_assign": "BitXor",
    "shl_assign": "Shl", "shr_assign": "Shr",
}
SYM = {"Add": "+", "Sub": "-", "Mul": "*", "Div": "/", "Rem": "%", "BitAnd": "&", "BitOr": "|", "BitXor": "^",
       "Shl": "<<", "Shr": ">>", "Lt": "<", "Le": "<=", "Gt": ">", "Ge": ">=", "Eq": "==", "Ne": "!="}


class Crate:
    def __init__(self, facts, config=None):
        self.facts = facts
        self.config = config
        self.macros = facts["macros"]
        self.debug_assertions = facts["debug_assertions"]
        self.overflow_checks = facts["overflow_checks"]
        self.bodies = [Body(self, b) for b in facts["bodies"]]
        self.by_path = defaultdict(list)
        for b in self.bodies:
            self.by_path[b.path].append(b)
        self.adts = {a["path"]: a for a in facts["adts"]}
        self.impls = facts["impls"]
        self.closures_of = defaultdict(list)
        for b in self.bodies:
            if b.kind == "Closure":
                self.closures_of[b.parent].append(b)

    @staticmethod
    def load(path, config=None):
        with open(path) as fh:
            return Crate(json.load(fh), config)

    def body(self, path):
        bs = self.by_path.get(path)
        if not bs:
            return None
        return bs[0]

    def find(self, pred):
        return [b for b in self.bodies if pred(b)]

    def macro_chain(self, mx):
        if mx is None:
            return []
        return self.macros[mx].split("|")


def short_ty(t):
    """'fixed::Bvf<I/#0, N/#1>' -> 'Bvf<I, N>' ; erase region noise"""
    t = re.sub(r"/#\d+", "", t)
    t = re.sub(r"'\{erased\} ?", "", t)
    t = re.sub(r"'[a-z_]+ ", "", t)
    t = re.sub(r"\b(?:[a-z_][a-z0-9_]*::)+", "", t)
    t = re.sub(r"_usize\b", "", t)
    return t


def ty_family(t):
    """Coarse family of a (possibly reference) type string: Bvf / Bvd / Bv / uint / other."""
    s = short_ty(t).lstrip("&").strip()
    if s.startswith("mut "):
        s = s[4:]
    if s.startswith("Bvf<"):
        return "Bvf"
    if s == "Bvd":
        return "Bvd"
    if s == "Bv":
        return "Bv"
    if s in ("u8", "u16", "u32", "u64", "u128", "usize"):
        return "uint"
    return s


class Body:
    def __init__(self, crate, raw):
        self.crate = crate
        self.raw = raw
        self.path = raw["path"]
        self.kind = raw["kind"]
        self.name = raw.get("name", "{closure}")
        self.file = raw["file"]
        self.line = raw["line"]
        self.line_hi = raw["line_hi"]
        self.vis = raw.get("vis", "")
        self.impl = raw.get("impl")
        self.impl_path = raw.get("impl_path")
        self.impl_line = raw.get("impl_line")
        self.parent = raw.get("parent")
        self.arg_count = raw["arg_count"]
        self.locals = raw["locals"]
        self.blocks = raw["blocks"]
        self.mx = raw.get("mx")
        self.trait_default_of = raw.get("trait_default_of")
        self._succ = None
        self._pred = None
        self._defs = None
        self._expr_cache = {}
        self._const_locals = None

    # ---- identity helpers -------------------------------------------------
    @property
    def self_ty(self):
        return short_ty(self.impl["self"]) if self.impl else None

    @property
    def self_family(self):
        return ty_family(self.impl["self"]) if self.impl else None

    @property
    def trait(self):
        if self.impl and "trait" in self.impl:
            return self.impl["trait"].split("::")[-1]
        return None

    @property
    def trait_args(self):
        """generic args of the trait ref beyond Self, shortened"""
        if self.impl and "trait_args" in self.impl:
            return [short_ty(a) for a in self.impl["trait_args"][1:]]
        return []

    @property
    def key(self):
        """Semantic key: '<Self as Trait<Args>>::name' or 'Self::name' -- no line numbers."""
        if self.kind == "Closure":
            return short_ty(self.path)
        if self.impl:
            if self.trait:
                a = self.trait_args
                tr = self.trait + ("<%s>" % ", ".join(a) if a else "")
                return "<%s as %s>::%s" % (self.self_ty, tr, self.name)
            return "%s::%s" % (self.self_ty, self.name)
        return short_ty(self.path)

    def where(self):
        s = "%s:%d" % (self.file, self.line)
        ch = self.crate.macro_chain(self.mx)
        if ch:
            s += " (expanded from %s)" % ch[-1]
        return s

    def local_name(self, l):
        d = self.locals[l]
        return d.get("name") or "_%d" % l

    def local_ty(self, l):
        return self.locals[l]["ty"]

    # ---- CFG ----------------------------------------------------------------
    def term(self, b):
        return self.blocks[b]["term"]

    def const_bool_locals(self):
        """locals whose only definition is `const true|false` (cfg!(debug_assertions) etc.)"""
        if self._const_locals is None:
            res = {}
            defs = self.defs
            for l, ds in defs.items():
                full = [d for d in ds if d[0] == "full"]
                if len(full) == 1 and len(ds) == 1 and full[0][1] == "stmt":
                    st = self.blocks[full[0][2]]["st"][full[0][3]]
                    r = st["r"]
                    if r["k"] == "use" and r["o"]["k"] == "const" and r["o"]["ty"] == "bool" and "int" in r["o"]:
                        res[l] = int(r["o"]["int"])
            self._const_locals = res
        return self._const_locals

    def raw_succ(self, b):
        t = self.term(b)
        k = t["t"]
        if k in ("goto", "drop", "falseedge", "falseunwind", "assert"):
            return [t["to"]]
        if k == "call":
            return [t["to"]] if "to" in t else []
        if k == "switch":
            d = t["d"]
            # prune switches on literal constants
            cl = self.const_bool_locals()
            val = None
            if d["k"] == "const" and "int" in d:
                val = int(d["int"])
            elif d["k"] in ("copy", "move") and not d["p"]["pr"] and d["p"]["l"] in cl:
                val = cl[d["p"]["l"]]
            if val is not None:
                for v, tb in t["tg"]:
                    if int(v) == val:
                        return [tb]
                return [t["ow"]]
            out = []
            for v, tb in t["tg"]:
                if tb not in out:
                    out.append(tb)
            if t["ow"] not in out:
                out.append(t["ow"])
            return out
        return []

    @property
    def succ(self):
        if self._succ is None:
            self._succ = {}
            for b in range(len(self.blocks)):
                if self.blocks[b]["cleanup"]:
                    self._succ[b] = []
                else:
                    self._succ[b] = [s for s in self.raw_succ(b)]
            # reachable only
            seen = set()
            st = [0]
            while st:
                x = st.pop()
                if x in seen:
                    continue
                seen.add(x)
                st.extend(self._succ[x])
            self.reachable = seen
            self._pred = defaultdict(list)
            for b in seen:
                for s in self._succ[b]:
                    self._pred[s].append(b)
        return self._succ

    @property
    def pred(self):
        self.succ
        return self._pred

    def reachable_blocks(self):
        self.succ
        return self.reachable

    def is_unreachable_block(self, b):
        return self.term(b)["t"] == "unreachable"

    def return_blocks(self):
        return [b for b in self.reachable_blocks() if self.term(b)["t"] == "ret"]

    def panic_blocks(self):
        """blocks ending in a diverging call (panic) reachable in the pruned CFG"""
        out = []
        for b in self.reachable_blocks():
            t = self.term(b)
            if t["t"] == "call" and "to" not in t:
                out.append(b)
        return out

    def reach_avoiding(self, start_blocks, avoid_blocks=(), avoid_edges=()):
        """set of blocks reachable from start_blocks without entering avoid_blocks / using avoid_edges"""
        avoid_blocks = set(avoid_blocks)
        avoid_edges = set(avoid_edges)
        seen = set()
        st = [b for b in start_blocks if b not in avoid_blocks]
        while st:
            x = st.pop()
            if x in seen:
                continue
            seen.add(x)
            for s in self.succ[x]:
                if s in avoid_blocks or (x, s) in avoid_edges:
                    continue
                st.append(s)
        return seen

    def block_dominates(self, a, b):
        """every path entry->b passes through block a"""
        if a == b:
            return True
        return b not in self.reach_avoiding([0], avoid_blocks=[a])

    def edge_dominates(self, edge, b):
        """every path entry->b uses the CFG edge (s,t)"""
        if b not in self.reachable_blocks():
            return True
        return b not in self.reach_avoiding([0], avoid_edges=[edge])

    def loc_dominates(self, la, lb):
        """location (bb, idx) la dominates lb; idx = statement index, terminator = len(st)"""
        if la[0] == lb[0]:
            if la[1] <= lb[1]:
                return True
            # same block, later statement: only dominates through a loop - not dominance
            return False
        return self.block_dominates(la[0], lb[0])

    def must_pass_to_return(self, from_loc, via_locs):
        """Every path from from_loc to a Return passes through one of via_locs (strictly after from_loc).
        Returns (True, None) or (False, offending return block)."""
        fb, fi = from_loc
        via_by_block = defaultdict(list)
        for (b, i) in via_locs:
            via_by_block[b].append(i)
        # same block, later statement
        if any(i > fi for i in via_by_block.get(fb, [])):
            return True, None
        blocked = set(via_by_block.keys())
        # blocks containing a via loc are 'blocked' entirely (entering them at the top passes the via loc)
        seen = set()
        st = [s for s in self.succ[fb]]
        while st:
            x = st.pop()
            if x in seen or x in blocked:
                continue
            seen.add(x)
            if self.term(x)["t"] == "ret":
                return False, x
            st.extend(self.succ[x])
        if self.term(fb)["t"] == "ret":
            return False, fb
        return True, None

    def loops(self):
        """natural loops: list of (header, set(body blocks)) via back edges (t->h where h dominates t)"""
        res = []
        for b in self.reachable_blocks():
            for s in self.succ[b]:
                if self.block_dominates(s, b):
                    # back edge b->s
                    body = {s}
                    st = [b]
                    while st:
                        x = st.pop()
                        if x in body:
                            continue
                        body.add(x)
                        st.extend(self.pred[x])
                    res.append((s, body))
        return res

    # ---- definitions -----------------------------------------------------------
    @property
    def defs(self):
        """local -> list of ('full'|'partial'|'mutref', 'stmt'|'call', bb, idx)"""
        if self._defs is None:
            d = defaultdict(list)
            for b, blk in enumerate(self.blocks):
                if blk["cleanup"]:
                    continue
                for i, st in enumerate(blk["st"]):
                    if st["s"] == "assign":
                        p = st["p"]
                        if not (p["pr"] and p["pr"][0] == "*"):
                            d[p["l"]].append(("full" if not p["pr"] else "partial", "stmt", b, i))
                        r = st["r"]
                        if r["k"] in ("ref", "rawptr") and (r.get("m") or r["k"] == "rawptr"):
                            rp = r["p"]
                            # a mutable borrow of (a place inside) a local that is not behind a deref
                            if not (rp["pr"] and rp["pr"][0] == "*"):
                                d[rp["l"]].append(("mutref", "stmt", b, i))
                    elif st["s"] == "setdiscr":
                        d[st["p"]["l"]].append(("partial", "stmt", b, i))
                t = blk["term"]
                if t["t"] == "call":
                    p = t["d"]
                    if not (p["pr"] and p["pr"][0] == "*"):
                        d[p["l"]].append(("full" if not p["pr"] else "partial", "call", b, len(blk["st"])))
            self._defs = d
        return self._defs

    def full_defs(self, l):
        return [x for x in self.defs.get(l, []) if x[0] == "full"]

    def is_param(self, l):
        return 1 <= l <= self.arg_count

    # ---- expression reconstruction ---------------------------------------------
    def e_const(self, o):
        if "fn" in o:
            f = o["fn"]
            return ("fnref", f["name"], callee_qual(f))
        if "uneval_name" in o and o["uneval_name"]:
            qual = short_ty(o.get("uneval", ""))
            return ("assoc", o["uneval_name"], qual)
        if "tyconst" in o:
            return ("cparam", re.sub(r"/#\d+", "", o["tyconst"]))
        if "int" in o and o["ty"] not in ("bool", "char"):
            return ("int", int(o["int"]))
        if o["ty"] == "bool" and "int" in o:
            return ("const", "true" if o["int"] == "1" else "false")
        if o["ty"] == "char":
            return ("const", o["v"])
        return ("const", o["v"])

    def e_operand(self, o, depth=0, visiting=None):
        if o["k"] == "const":
            return self.e_const(o)
        if o["k"] in ("copy", "move"):
            return self.e_place(o["p"], depth, visiting)
        return ("unknown", str(o)[:60])

    def e_place(self, p, depth=0, visiting=None):
        l = p["l"]
        pr = p["pr"]
        # overflow tuples: (_26.0) of a checked op
        base = None
        start = 0
        if pr and isinstance(pr[0], dict) and "f" in pr[0] and pr[0].get("adt") == "tuple":
            fd = self.full_defs(l)
            if len(fd) == 1 and fd[0][1] == "stmt":
                st = self.blocks[fd[0][2]]["st"][fd[0][3]]
                r = st["r"]
                if r["k"] == "bin" and r["op"].endswith("WithOverflow"):
                    a = self.e_operand(r["a"], depth + 1, visiting)
                    b = self.e_operand(r["b"], depth + 1, visiting)
                    base = ("bin" if pr[0]["f"] == 0 else "ovf", BINOPS[r["op"]], a, b)
                    start = 1
        if base is None:
            base = self.e_local(l, depth, visiting)
        for el in pr[start:]:
            if el == "*":
                continue
            if "f" in el:
                name = el.get("fname") or str(el["f"])
                if base[0] == "ivopt" and name == "0":
                    base = ("iv", base[1])
                else:
                    base = ("field", base, name)
            elif "i" in el:
                base = ("index", base, self.e_local(el["i"], depth + 1, visiting))
            elif "ci" in el:
                base = ("index", base, ("int", el["ci"]) if not el["fe"] else ("fromend", el["ci"]))
            elif "dc" in el:
                base = ("variant", base, el["dc"])
                if (el["dc"] == "Some" and base[1][0] == "call" and base[1][1] in ("next", "next_back")
                        and len(base[1][3]) == 1 and base[1][3][0][0] == "var"):
                    base = ("ivopt", base[1][3][0][2])
            elif "sub_from" in el:
                base = ("subslice", base, el["sub_from"], el["sub_to"], el["fe"])
            else:
                base = ("proj?", base, str(el))
        return base

    def inlinable(self, l):
        ds = self.defs.get(l, [])
        full = [d for d in ds if d[0] == "full"]
        other = [d for d in ds if d[0] != "full"]
        if self.is_param(l):
            return None
        if other:
            return None
        if not full:
            return None
        decl = self.locals[l]
        if len(full) == 1:
            return full
        if decl["user"] and decl["mut"]:
            return None
        return full

    def e_local(self, l, depth=0, visiting=None):
        if l in self._expr_cache:
            return self._expr_cache[l]
        if self.is_param(l):
            return ("param", self.local_name(l))
        if depth > 60:
            return ("var", self.local_name(l), l)
        visiting = visiting or frozenset()
        if l in visiting:
            return ("var", self.local_name(l), l)
        full = self.inlinable(l)
        if not full:
            return ("var", self.local_name(l), l)
        v2 = visiting | {l}
        exprs = []
        for d in full:
            exprs.append(self.e_def(d, depth + 1, v2))
        if len(exprs) == 1:
            e = exprs[0]
        else:
            uniq = []
            for x in exprs:
                if x not in uniq:
                    uniq.append(x)
            e = uniq[0] if len(uniq) == 1 else ("phi", self.local_name(l), tuple(uniq))
        if not visiting:
            self._expr_cache[l] = e
        return e

    def init_expr(self, l):
        """expression of the (single) full definition of a local, even if it is later mutated"""
        full = self.full_defs(l)
        if len(full) != 1:
            return None
        return self.e_def(full[0], 1, frozenset([l]))

    def e_def(self, d, depth, visiting):
        _, kind, b, i = d
        if kind == "stmt":
            st = self.blocks[b]["st"][i]
            return self.e_rvalue(st["r"], depth, visiting)
        t = self.blocks[b]["term"]
        return self.e_call(t, depth, visiting)

    def e_call(self, t, depth=0, visiting=None):
        f = t["f"]
        args = tuple(self.e_operand(a, depth + 1, visiting) for a in t["args"])
        if f["k"] == "const" and "fn" in f:
            fn = f["fn"]
            name = fn["name"]
            qual = callee_qual(fn)
            tr = fn.get("trait", "")
            if tr.startswith("std::ops::") and name in OP_TRAIT_METHODS and len(args) == 2:
                return ("bin", OP_TRAIT_METHODS[name], args[0], args[1])
            if tr == "std::ops::Not" and len(args) == 1:
                return ("un", "Not", args[0])
            if tr in ("std::cmp::PartialEq", "std::cmp::PartialOrd") and name in CMP_TRAIT_METHODS and len(args) == 2:
                return ("bin", CMP_TRAIT_METHODS[name], args[0], args[1])
            targs = tuple(short_ty(a) for a in fn.get("args", []))
            return ("call", name, qual, args, targs)
        return ("call", "<indirect>", str(self.e_operand(f, depth + 1, visiting)), args, ())

    def e_rvalue(self, r, depth=0, visiting=None):
        k = r["k"]
        if k == "use":
            return self.e_operand(r["o"], depth, visiting)
        if k in ("ref", "rawptr", "copyforderef"):
            return self.e_place(r["p"], depth, visiting)
        if k == "bin":
            a = self.e_operand(r["a"], depth + 1, visiting)
            b = self.e_operand(r["b"], depth + 1, visiting)
            op = r["op"]
            if op.endswith("WithOverflow"):
                return ("tuple", (("bin", BINOPS[op], a, b), ("ovf", BINOPS[op], a, b)))
            return ("bin", BINOPS.get(op, op), a, b)
        if k == "un":
            return ("un", r["op"], self.e_operand(r["o"], depth + 1, visiting))
        if k == "cast":
            inner = self.e_operand(r["o"], depth + 1, visiting)
            ck = r["ck"]
            if ck.startswith("PointerCoercion") or ck in ("Transmute", "PtrToPtr", "Subtype"):
                return inner
            return ("cast", inner, short_ty(r["ty"]))
        if k == "discr":
            return ("discr", self.e_place(r["p"], depth + 1, visiting))
        if k == "agg":
            fs = tuple(self.e_operand(o, depth + 1, visiting) for o in r["fs"])
            ak = r["ak"]
            if ak == "adt":
                return ("agg", short_ty(r["adt"]), r["variant"], fs)
            if ak == "tuple":
                return ("tuple", fs)
            if ak == "array":
                return ("array", fs)
            if ak == "closure":
                return ("closure", r["closure"], fs)
            return ("unknown", r.get("s", ak))
        if k == "repeat":
            return ("repeat", self.e_operand(r["o"], depth + 1, visiting), re.sub(r"/#\d+", "", r["n"]))
        return ("unknown", r.get("s", k)[:80])

    # ---- iteration helpers --------------------------------------------------------
    def iter_stmts(self):
        """yield (bb, idx, stmt) over reachable, non-cleanup blocks"""
        for b in sorted(self.reachable_blocks()):
            for i, st in enumerate(self.blocks[b]["st"]):
                yield b, i, st

    def iter_calls(self):
        """yield (bb, term, fninfo|None) for reachable call terminators"""
        for b in sorted(self.reachable_blocks()):
            t = self.term(b)
            if t["t"] == "call":
                f = t["f"]
                yield b, t, (f.get("fn") if f["k"] == "const" else None)

    def iter_asserts(self):
        for b in sorted(self.reachable_blocks()):
            t = self.term(b)
            if t["t"] == "assert":
                yield b, t

    def iter_switches(self):
        for b in sorted(self.reachable_blocks()):
            t = self.term(b)
            if t["t"] == "switch" and len(self.succ[b]) > 1:
                yield b, t

    def switch_cond(self, b):
        """(expr, {succ_block: 'value'}) of the switch terminating block b"""
        t = self.term(b)
        e = self.e_operand(t["d"])
        m = {}
        for v, tb in t["tg"]:
            m.setdefault(tb, []).append(v)
        m.setdefault(t["ow"], []).append("otherwise")
        return e, m

    def call_loc(self, b):
        return (b, len(self.blocks[b]["st"]))

    def return_expr(self):
        return self.e_local(0)

    # ---- loops over iterators ---------------------------------------------------
    def iter_source(self, iter_local):
        """expression the iterator local was initialised from, with into_iter() stripped"""
        e = self.init_expr(iter_local)
        while isinstance(e, tuple) and e[0] == "call" and e[1] == "into_iter" and len(e[3]) == 1:
            e = e[3][0]
        if e is None:
            return ("unknown", "iterator source of %s" % self.local_name(iter_local))
        return e

    def iv_name(self, iter_local):
        """user name bound to the item of `iter_local`'s next(), if any"""
        for l, d in enumerate(self.locals):
            if d.get("name") and d["user"]:
                fd = self.full_defs(l)
                if len(fd) == 1 and fd[0][1] == "stmt":
                    st = self.blocks[fd[0][2]]["st"][fd[0][3]]
                    r = st["r"]
                    if r["k"] == "use" and r["o"]["k"] in ("copy", "move"):
                        e = self.e_place(r["o"]["p"])
                        if e == ("iv", iter_local):
                            return d["name"]
        return "iv%d" % iter_local


def callee_qual(fn):
    if "res" in fn:
        return fn["res"]["path"]
    return fn["path"]


def callee_self_ty(fn):
    """Self type of a trait-method call (first generic arg), shortened"""
    if fn.get("trait") and fn["args"]:
        return short_ty(fn["args"][0])
    if "impl" in fn:
        return short_ty(fn["impl"]["self"])
    return None


# ---------------------------------------------------------------------------------
# expression utilities
# ---------------------------------------------------------------------------------

def show(e, top=True):
    """source-like rendering of an expression tree"""
    if not isinstance(e, tuple):
        return str(e)
    k = e[0]
    if k == "int":
        return str(e[1])
    if k == "assoc":
        return e[1]
    if k == "cparam":
        return e[1]
    if k == "const":
        return e[1]
    if k in ("param", "var"):
        return e[1]
    if k == "iv":
        return "iv%d" % e[1]
    if k == "phi":
        return "%s{%s}" % (e[1], " | ".join(show(x) for x in e[2]))
    if k == "field":
        return "%s.%s" % (show(e[1], False), e[2])
    if k == "variant":
        return "(%s as %s)" % (show(e[1]), e[2])
    if k == "index":
        return "%s[%s]" % (show(e[1], False), show(e[2]))
    if k == "bin":
        s = "%s %s %s" % (show(e[2], False), SYM.get(e[1], e[1]), show(e[3], False))
        return s if top else "(" + s + ")"
    if k == "ovf":
        return "overflow(%s %s %s)" % (show(e[2], False), SYM.get(e[1], e[1]), show(e[3], False))
    if k == "un":
        if e[1] == "Not":
            return "!" + show(e[2], False)
        if e[1] == "PtrMetadata":
            return "len(%s)" % show(e[2])
        return "%s(%s)" % (e[1], show(e[2]))
    if k == "cast":
        s = "%s as %s" % (show(e[1], False), e[2])
        return s if top else "(" + s + ")"
    if k == "call":
        return "%s(%s)" % (e[1], ", ".join(show(a) for a in e[3]))
    if k == "fnref":
        return e[1]
    if k == "agg":
        nm = e[1] if e[1].endswith(e[2]) or e[2] == e[1].split("<")[0] else "%s::%s" % (e[1], e[2])
        if not e[3]:
            return nm
        return "%s{%s}" % (nm, ", ".join(show(a) for a in e[3]))
    if k in ("tuple", "array"):
        return "(%s)" % ", ".join(show(a) for a in e[1]) if k == "tuple" else "[%s]" % ", ".join(show(a) for a in e[1])
    if k == "repeat":
        return "[%s; %s]" % (show(e[1]), e[2])
    if k == "closure":
        return "closure<%s>" % e[1].split("::")[-1]
    if k == "discr":
        return "discr(%s)" % show(e[1])
    return "?" + str(e)[:80]


def walk(e):
    """pre-order traversal of all sub-expressions"""
    yield e
    if isinstance(e, tuple):
        for x in e[1:]:
            if isinstance(x, tuple):
                if x and isinstance(x[0], str):
                    yield from walk(x)
                else:
                    for y in x:
                        if isinstance(y, tuple):
                            yield from walk(y)


def contains(e, pred):
    return any(pred(x) for x in walk(e))


def mentions_leaf(e, kind, name):
    return contains(e, lambda x: isinstance(x, tuple) and len(x) >= 2 and x[0] == kind and x[1] == name)


def root_of(e):
    """root leaf of a place-like expression (through field/index/variant)"""
    while isinstance(e, tuple) and e[0] in ("field", "index", "variant", "subslice", "proj?"):
        e = e[1]
    return e


def field_path(e):
    """list of field names from the root to e, ignoring index/variant"""
    out = []
    while isinstance(e, tuple) and e[0] in ("field", "index", "variant", "subslice"):
        if e[0] == "field":
            out.append(e[2])
        e = e[1]
    return list(reversed(out))


def strip_casts(e):
    while isinstance(e, tuple) and e[0] == "cast":
        e = e[1]
    return e


def is_call(e, name=None):
    return isinstance(e, tuple) and e[0] == "call" and (name is None or e[1] == name or (isinstance(name, (set, tuple, list)) and e[1] in name))


def is_bin(e, op=None):
    return isinstance(e, tuple) and e[0] == "bin" and (op is None or e[1] == op or (isinstance(op, (set, tuple, list)) and e[1] in op))


def payload_variant_of(e):
    """(x as V).0 -> V"""
    if isinstance(e, tuple) and e[0] == "field" and e[2] == "0" and e[1][0] == "variant":
        return e[1][2]
    return None


# ---- linear normal form ------------------------------------------------------------------------------------------------
def linear(e):
    """(coefs, const): e as an integer-linear combination of non-additive atoms, so that `n - i - 1`, `n - 1 - i`
    and `n - (i + 1)` compare equal. Atoms are the maximal subexpressions that are not + / - / multiplication by a
    literal; induction variables are renamed to ('iv',) so that local numbering does not matter."""
    coefs = {}
    const = 0

    def add(x, k):
        nonlocal const
        if isinstance(x, tuple) and x:
            if x[0] == "int":
                const += k * x[1]
                return
            if x[0] == "bin" and x[1] in ("Add", "Sub"):
                add(x[2], k)
                add(x[3], k if x[1] == "Add" else -k)
                return
            if x[0] == "bin" and x[1] == "Mul":
                if isinstance(x[2], tuple) and x[2][:1] == ("int",):
                    add(x[3], k * x[2][1])
                    return
                if isinstance(x[3], tuple) and x[3][:1] == ("int",):
                    add(x[2], k * x[3][1])
                    return
            if x[0] == "iv":
                x = ("iv",)
        coefs[x] = coefs.get(x, 0) + k

    add(e, 1)
    return {a: c for a, c in coefs.items() if c}, const


def lin_eq(a, b):
    return linear(a) == linear(b)
