"""CARRY, SIB (word primitives, by-reference twins), LEN, ERR, CONST, SAFE, ORDER (DESIGN §4)."""
import io
import re

from . import mir, storage, guard, dump
from .mir import show, is_call, is_bin, walk

WORD_TYPES = ("u8", "u16", "u32", "u64", "u128", "usize")
WIDTH = {"u8": 8, "u16": 16, "u32": 32, "u64": 64, "u128": 128, "usize": 64}


# --------------------------------------------------------------------------------------------
# CARRY
# --------------------------------------------------------------------------------------------

def moved_into_helpers(b):
    """names of the helpers introduced after the review (not in rules/census.json) that b calls: when a kernel's loop was
    moved into such a helper (possibly parameterised by closures / function values) its shape is not extracted"""
    out = []
    for bb, t, fn in b.iter_calls():
        h = b.crate.new_helper(fn)
        if h is not None and h.name not in out:
            out.append(h.name)
    return out


def carry_kernels(crate):
    """add/sub/mul kernels: carry initialised to zero, threaded through every word step, never reset
    between the common-words loop and the remaining-words loop"""
    res = []
    for b in crate.bodies:
        if b.kind == "Closure" or b.self_family not in ("Bvf", "Bvd"):
            continue
        if b.trait not in ("AddAssign", "SubAssign", "Mul"):
            continue
        moved = moved_into_helpers(b)
        if moved and not any(fn and fn["name"] in ("cadd", "csub", "overflowing_add", "overflowing_sub") for bb, t, fn in b.iter_calls()):
            res.append((b, b.key, "undecided", "the word loop of this kernel lives in the helper(s) %s introduced after the review: "
                        "carry threading not decided" % ", ".join(moved)))
            continue
        if not b.loops():
            continue
        steps = []   # (bb, style, carry_operand, call expr)
        for bb, t, fn in b.iter_calls():
            if not fn:
                continue
            if fn["name"] in ("cadd", "csub") and len(t["args"]) == 3:
                steps.append((bb, "c", b.e_operand(t["args"][2]), b.e_call(t), t))
            elif fn["name"] in ("overflowing_add", "overflowing_sub") and len(t["args"]) == 2:
                steps.append((bb, "o", None, b.e_call(t), t))
        if not steps:
            res.append((b, b.key, "violation", "arithmetic kernel without a carry/borrow primitive call"))
            continue
        probs = []
        want = {"AddAssign": ("cadd", "overflowing_add"), "SubAssign": ("csub", "overflowing_sub"), "Mul": ("cadd",)}[b.trait]
        for bb, style, c, e, t in steps:
            if e[1] not in want:
                probs.append("%s kernel calls %s" % (b.trait, e[1]))
        carries = {}
        if steps[0][1] == "c":
            for bb, style, c, e, t in steps:
                if c[0] != "var":
                    probs.append("carry operand of %s is `%s`, not a carry variable" % (e[1], show(c)))
                    continue
                carries.setdefault(c[2], []).append((bb, e, t))
            for cl, uses in carries.items():
                probs += _check_carry_var(b, cl, uses, mul=(b.trait == "Mul"))
        else:
            probs += _check_overflowing_style(b, steps)
        probs += _every_iteration_steps(b, [s[0] for s in steps], steps)
        if probs and b.unmodelled_iteration() and not any("kernel calls" in p_ for p_ in probs):
            probs = ["UNDECIDED: the kernel walks its words through %s, which this rule does not model (%s)"
                     % (", ".join(b.unmodelled_iteration()), "; ".join(p_[:70] for p_ in probs)[:240])]
        if any(p_.startswith("UNDECIDED:") for p_ in probs):
            rest = [p_ for p_ in probs if not p_.startswith("UNDECIDED:")]
            if not rest:
                res.append((b, b.key, "undecided", "; ".join(p_[11:] for p_ in probs)))
                continue
            probs = rest
        res.append((b, b.key, "violation" if probs else "pass",
                    "; ".join(dict.fromkeys(probs)) if probs else
                    "%d word steps, carry threaded (%s style), performed on every iteration of their loop"
                    % (len(steps), "cadd/csub" if steps[0][1] == "c" else "overflowing_*")))
    return res


def _idle_exit(b, body, ent, sblk, step):
    """the only ways out of the loop before the step are branches taken when the carry is zero, in a loop whose step adds a
    zero word (`if carry == 0 { break }` in the ripple over the upper words): the skipped steps are cadd(w, 0, 0) = identity"""
    if step is None:
        return False
    bb, style, c, e, t = step
    if style == "c":
        if not (is_call(e, ("cadd", "csub")) and len(e[3]) == 3 and _is_zero_const(e[3][1])):
            return False
    else:
        # overflowing_add(word, carry): the whole addend is the carry; leaving when it is zero skips `word + 0`
        if not (is_call(e, ("overflowing_add", "overflowing_sub")) and len(e[3]) == 2):
            return False
        c = e[3][1]
    reach = b.reach_avoiding([ent], avoid_blocks=[sblk])
    exits = 0
    for sb, cond, ts, fs in guard.cond_edges(b):
        if sb not in reach or sb not in body:
            continue
        for taken, succ in ((True, ts), (False, fs)):
            if succ in body:
                continue
            if _is_panic_path(b, succ):
                continue
            exits += 1
            rels = guard.relations_on_edge(cond, taken)
            if not any(op == "Eq" and x == c and _is_zero_const(y) for op, x, y in rels):
                return False
    return exits > 0


def _every_iteration_steps(b, step_blocks, steps=None):
    """each word step is executed on every iteration of its innermost loop: no data-dependent `break` / `continue`
    can skip it (a skipped step drops a partial product or a carry)"""
    probs = []
    loops = b.loops()
    for sblk in step_blocks:
        inner = None
        for hdr, body in loops:
            if sblk in body and (inner is None or len(body) < len(inner[1])):
                inner = (hdr, body)
        if inner is None:
            probs.append("a word step is not inside a loop")
            continue
        hdr, body = inner
        # body entry: the successor(s) of the block that switches on next()'s discriminant inside the loop and stays inside
        entries = []
        for x in body:
            t = b.term(x)
            if t["t"] == "switch":
                e, m = b.switch_cond(x)
                if e[0] == "discr" and is_call(e[1], ("next", "next_back")):
                    for s_ in b.succ[x]:
                        if "1" in m.get(s_, []) and s_ in body:
                            entries.append(s_)
        if not entries:
            # `while` loop: the loop condition's in-body successor
            for sb, cond, ts, fs in guard.cond_edges(b):
                if sb in body and b.block_dominates(sb, sblk):
                    if ts in body and fs not in body:
                        entries.append(ts)
                    elif fs in body and ts not in body:
                        entries.append(fs)
        for ent in entries:
            if ent == sblk:
                continue
            reach = b.reach_avoiding([ent], avoid_blocks=[sblk])
            # steps of the same loop on alternative branches (e.g. two-phase add) all count
            others = [x for x in step_blocks if x != sblk and x in body]
            reach2 = b.reach_avoiding([ent], avoid_blocks=[sblk] + others)
            if hdr in reach2:
                probs.append("an iteration of the word loop can return to the loop header without performing the word step (`continue`/conditional skip)")
            elif any((x not in body) for x in reach2 if b.term(x)["t"] != "unreachable" and not _is_panic_path(b, x)):
                st = next((s_ for s_ in (steps or []) if s_[0] == sblk), None)
                if _idle_exit(b, body, ent, sblk, st):
                    continue
                probs.append("the word loop can be left early without performing the word step (`break` on a data-dependent condition)")
    return probs


def _is_panic_path(b, blk):
    """block from which no return is reachable (bounds-check / overflow panic continuation)"""
    reach = b.reach_avoiding([blk])
    return not any(b.term(x)["t"] == "ret" for x in reach)


def _is_zero_const(e):
    e = mir.strip_casts(e)
    return e == ("int", 0) or (e[0] == "assoc" and e[1] == "ZERO")


def _check_carry_var(b, cl, uses, mul):
    probs = []
    name = b.local_name(cl)
    defs = b.full_defs(cl)
    zero_defs, step_defs, other = [], [], []
    for d in defs:
        e = b.e_def(d, 1, frozenset([cl]))
        if _is_zero_const(e):
            zero_defs.append(d)
        elif mir.contains(e, lambda x: is_call(x, ("cadd", "csub"))):
            step_defs.append((d, e))
        else:
            other.append((d, e))
    if len(zero_defs) != 1:
        probs.append("carry `%s` has %d zero initialisations (expected exactly 1%s)"
                     % (name, len(zero_defs), ": it must not be reset between the word loops" if len(zero_defs) > 1 else ""))
    for d, e in other:
        probs.append("carry `%s` is assigned `%s`, which is neither zero nor a carry result" % (name, show(e)[:80]))
    if len(step_defs) != len(uses):
        probs.append("carry `%s`: %d word steps but %d of them store their carry-out back" % (name, len(uses), len(step_defs)))
    for d, e in step_defs:
        if mul:
            # carry = cadd(res[i+j], product.0, carry) + product.1
            ok = is_bin(e, "Add")
            if ok:
                c, hi = (e[2], e[3]) if is_call(e[2], "cadd") else (e[3], e[2])
                ok = is_call(c, "cadd") and hi[0] == "field" and hi[2] == "1" and is_call(hi[1], "wmul") \
                    and c[3][1] == ("field", hi[1], "0") and c[3][2][0] == "var" and c[3][2][2] == cl
            if not ok:
                probs.append("mul carry is `%s`, expected cadd(word, product.0, carry) + product.1" % show(e)[:120])
        else:
            if not (is_call(e, ("cadd", "csub")) and e[3][2][0] == "var" and e[3][2][2] == cl):
                probs.append("carry-out `%s` is not the direct result of the word step" % show(e)[:100])
    if zero_defs:
        z = zero_defs[0]
        zl = (z[2], z[3])
        for bb, e, t in uses:
            if not b.loc_dominates(zl, b.call_loc(bb)):
                probs.append("zero initialisation of `%s` does not dominate a word step" % name)
        if mul:
            # reset at the top of each outer iteration: the zero def is inside exactly one loop (the outer one)
            loops = b.loops()
            inside = [1 for hdr, body in loops if z[2] in body]
            if len(inside) != 1:
                probs.append("mul carry must be reset once per outer iteration (zero def is inside %d loops)" % len(inside))
        else:
            if any(z[2] in body for hdr, body in b.loops()):
                probs.append("carry `%s` is reset inside a loop" % name)
    return probs


def _check_overflowing_style(b, steps):
    probs = []
    # carry variable = the mutable user var assigned from overflow flags
    # the carry variable is found by its role: the mutable local passed as second operand of a word step whose first
    # operand is a storage word
    carry_locals = set()
    for bb, style, c, e, t in steps:
        a0, a1 = e[3]
        if a1[0] == "var" and len(a1) > 2 and mir.root_of(a0) == ("param", "self") and a0[0] == "index":
            carry_locals.add(a1[2])
    if len(carry_locals) == 0:
        return ["UNDECIDED: the word steps do not take an indexed storage word of self as first operand (items of an iterator / a "
                "split slice): which local is the carry is not identified"]
    if len(carry_locals) != 1:
        return ["expected one carry variable threaded through the word steps, found %d" % len(carry_locals)]
    cl = list(carry_locals)[0]
    cv = ("var", b.local_name(cl), cl)
    defs = b.full_defs(cl)
    zero = [d for d in defs if _is_zero_const(b.e_def(d, 1, frozenset([cl])))]
    if len(zero) != 1:
        probs.append("carry has %d zero initialisations (expected 1: not reset between the loops)" % len(zero))
    elif any(zero[0][2] in body for hdr, body in b.loops()):
        probs.append("carry is reset inside a loop")
    nonzero = [b.e_def(d, 1, frozenset([cl])) for d in defs if d not in zero]
    # each loop: words stored and carry updated
    writes = [e for e in storage.events(b) if e.kind == "write" and not _is_mask_write(e)]
    for w in writes:
        v = w.value
        if not (v[0] == "field" and v[2] == "0" and is_call(v[1], ("overflowing_add", "overflowing_sub"))):
            probs.append("stored word `%s` is not the value part of the word step" % show(v)[:80])
            continue
        outer = v[1]
        inner = outer[3][0]
        if inner[0] == "field" and inner[2] == "0" and is_call(inner[1], outer[1]):
            # two-step: (word op carry) op rhs  -> carry must be c1 | c2
            first = inner[1]
            if first[3][1] != cv:
                probs.append("first step does not consume the carry: %s" % show(first)[:80])
            want = {("field", first, "1"), ("field", outer, "1")}
            ok = False
            for e in nonzero:
                e2 = mir.strip_casts(e)
                while is_call(e2, ("from", "into")) and len(e2[3]) == 1:
                    e2 = mir.strip_casts(e2[3][0])          # u64::from(c1 | c2)
                if is_bin(e2, "BitOr") and {mir.strip_casts(e2[2]), mir.strip_casts(e2[3])} == want:
                    ok = True
            if not ok:
                probs.append("carry-out of the two-step word add is not `c1 | c2` of both overflow flags")
        else:
            if outer[3][1] != cv:
                probs.append("word step does not consume the carry: %s" % show(outer)[:80])
            def _flag(e):
                e = mir.strip_casts(e)
                while is_call(e, ("from", "into")) and len(e[3]) == 1:
                    e = mir.strip_casts(e[3][0])
                return e
            if not any(_flag(e) == ("field", outer, "1") for e in nonzero):
                probs.append("carry-out of the remaining-words step is not its overflow flag")
    if len(writes) < 2:
        probs.append("expected a common-words loop and a remaining-words loop")
    return probs


def _is_mask_write(w):
    v = w.value if w.how == "assign" else None
    return v is not None and is_bin(v, "BitAnd") and mir.contains(v, lambda x: is_call(x, "mask"))


# --------------------------------------------------------------------------------------------
# SIB: word primitives
# --------------------------------------------------------------------------------------------

PRIMS = ("mask", "cadd", "csub", "wmul", "leading_zeros", "leading_ones", "trailing_zeros", "trailing_ones")


def _signature(b, ty):
    buf = io.StringIO()
    dump.dump_body(b, buf, with_idx=False)
    s = buf.getvalue()
    s = "\n".join(l for l in s.splitlines()[2:])
    s = s.replace(" as usize", " as USIZE").replace("length: usize", "length: USIZE")
    s = re.sub(r"<(u8|u16|u32|u64|u128|usize) as", "<T as", s)
    s = re.sub(r"\b%s\b" % ty, "T", s)
    s = re.sub(r"\b%d\b" % WIDTH[ty], "W", s)
    return s


def _raw_sig(b):
    buf = io.StringIO()
    dump.dump_body(b, buf, with_idx=False)
    return "\n".join(buf.getvalue().splitlines()[2:])


def _usize_like_u64(impls):
    """usize has the width of u64 on this target: its body must be u64's with the type renamed"""
    a = _raw_sig(impls["usize"])
    c = re.sub(r"\bu64\b", "usize", _raw_sig(impls["u64"]))
    return a == c, _diff(c, a)


def _slot_mask(b, ty):
    """mask(n) = (1 << n) - 1 if n < BITS else MAX, judged on the value it returns per branch"""
    ret = b.return_expr()
    alts = ret[2] if ret[0] == "phi" else (ret,)
    shown = sorted(show(a) for a in alts)
    edges = guard.cond_edges(b)
    conds = [show(c) for _, c, _, _ in edges]
    if shown == ["MAX", "wrapping_sub(ONE << length, 1)"] and conds == ["length < (BITS as usize)"]:
        # the shifted arm must be the one taken when the condition holds
        sb, c, ts, fs = edges[0]
        for bb, t, fn in b.iter_calls():
            if fn and fn["name"] == "wrapping_sub":
                if b.edge_dominates((sb, ts), bb):
                    return "pass", "mask(n) = (1 << n) - 1 if n < BITS else MAX"
                return "violation", "(1 << n) - 1 is computed on the branch where n >= BITS"
        return "pass", "mask(n) = (1 << n) - 1 if n < BITS else MAX"
    # whatever the spelling: the length must not lose its high bits before it is compared with the word width
    lp = ("param", b.local_name(1))
    for bb, i, st in b.iter_stmts():
        if st["s"] == "assign" and st["r"]["k"] == "cast" and st["r"]["ck"] == "IntToInt" and b.e_operand(st["r"]["o"]) == lp \
                and mir.short_ty(st["r"]["ty"]) in ("u8", "u16", "u32", "i8", "i16", "i32"):
            bounded = any(l == lp and op in ("Lt", "Le") for sb, cond, taken, succ, other in guard.edges_dominating(b, bb)
                          for op, l, r in guard.relations_on_edge(cond, taken))
            if not bounded:
                return "violation", ("`length as %s` truncates the length before it is compared with the word width: a length of 2^32 + k "
                                     "(k < BITS) yields a k-bit mask instead of a full one" % mir.short_ty(st["r"]["ty"]))
    if len(alts) == 2 and len(edges) == 1 and not any(bb for bb, t, fn in b.iter_calls() if fn and fn["name"] not in ("wrapping_sub", "shl", "sub")):
        return "violation", "mask is %s under %s" % (shown, conds)
    return "undecided", "mask is written in a form this rule does not model (%s under %s): its value is not decided" % (shown, conds)


def _slot_carry(b, op):
    ret = b.return_expr()
    ok = is_bin(ret, "Add") and all(
        mir.strip_casts(x)[0] == "field" and mir.strip_casts(x)[2] == "1" and is_call(mir.strip_casts(x)[1], op)
        for x in (ret[2], ret[3]))
    if ok and mir.strip_casts(ret[2]) != mir.strip_casts(ret[3]):
        return "pass", "carry-out = c1 + c2 of both %s steps" % op
    n = sum(1 for bb, t, fn in b.iter_calls() if fn and fn["name"] == op)
    if n >= 1:
        return "violation", "carry-out `%s` is not c1 + c2 of both %s steps" % (show(ret), op)
    return "undecided", "carry-out `%s` is computed without %s: not decided" % (show(ret)[:80], op)


def _slot_count(b, name, ty):
    ret = mir.strip_casts(b.return_expr())
    if ret[0] == "call" and ret[1] in ("leading_zeros", "leading_ones", "trailing_zeros", "trailing_ones"):
        ok = ret[1] == name and len(ret[3]) == 1 and mir.strip_casts(ret[3][0]) in (("param", "self"), ("deref", ("param", "self")))
        return ("pass", "%s::%s(*self)" % (ty, name)) if ok else ("violation", "returns %s" % show(ret))
    return "undecided", "returns %s: a form this rule does not model" % show(ret)[:80]


def word_primitives(crate):
    """Every word type's copy of an Integer primitive is judged on its own semantic slots (SLOT: the carry-out, the mask
    value per branch, the widened product, the std counting function). The textual comparison of the six copies (SIB)
    is a lead only: a behaviour-preserving rewrite of one copy produces the same difference as a one-sided bug."""
    res = []
    by = {}
    for b in crate.bodies:
        if b.trait == "Integer" and b.self_ty in WORD_TYPES and b.name in PRIMS:
            by.setdefault(b.name, {})[b.self_ty] = b
    for name in PRIMS:
        impls = by.get(name, {})
        if len(impls) < 6:
            res.append((None, "SIB %s" % name, "violation", "only %d of 6 word types implement Integer::%s" % (len(impls), name)))
            continue
        for ty in WORD_TYPES:
            b = impls[ty]
            if name == "mask":
                v, why = _slot_mask(b, ty)
            elif name in ("cadd", "csub"):
                v, why = _slot_carry(b, "overflowing_add" if name == "cadd" else "overflowing_sub")
            elif name == "wmul":
                if ty == "u128":
                    continue
                buf = io.StringIO()
                dump.dump_body(b, buf, with_idx=False)
                raw = buf.getvalue()
                m = re.search(r"\(self as (u\d+)\) \* \(rhs as (u\d+)\)", raw)
                if m and m.group(1) == m.group(2):
                    wide = m.group(1)
                    ok = WIDTH[wide] >= 2 * WIDTH[ty]
                    v, why = ("pass" if ok else "violation"), "widened to %s (%d bits %s 2 x %d)" % (wide, WIDTH[wide], ">=" if ok else "<", WIDTH[ty])
                elif re.search(r"self as u\d+|rhs as u\d+", raw):
                    v, why = "violation", "product is not (self as W) * (rhs as W)"
                else:
                    v, why = "undecided", "the product is not computed by widening casts: not decided"
                res.append((b, "SIB wmul widening %s" % ty, v, why))
                continue
            else:
                v, why = _slot_count(b, name, ty)
            res.append((b, "SLOT %s %s" % (name, ty), v, why))
        if name == "wmul":
            sigs = {}
            for ty in ("u8", "u16", "u32", "u64", "usize"):
                b = impls[ty]
                buf = io.StringIO()
                dump.dump_body(b, buf, with_idx=False)
                raw = buf.getvalue()
                m = re.search(r"\(self as (u\d+)\) \* \(rhs as (u\d+)\)", raw)
                if not m or m.group(1) != m.group(2):
                    continue
                wide = m.group(1)
                s2 = "\n".join(raw.splitlines()[2:])
                s2 = s2.replace(" as usize", " as USIZE")
                s2 = re.sub(r"\b%s\b" % wide, "WIDE", s2)
                s2 = re.sub(r"\b%s\b" % ty, "T", s2)
                s2 = re.sub(r"\b%d\b" % WIDTH[ty], "W", s2)
                s2 = re.sub(r"\b%d\b" % WIDTH[wide], "WW", s2)
                s2 = re.sub(r"<(u8|u16|u32|u64|u128|usize|T) as", "<T as", s2)
                sigs[ty] = s2
            ref = sigs.get("u8")
            for ty, s2 in sigs.items():
                if ty == "usize":
                    ok, d = _usize_like_u64(impls)
                    res.append((impls[ty], "SIB wmul usize", "pass" if ok else "undecided",
                                "same body as u64::wmul with the type renamed" if ok else "lead: body differs from u64::wmul:\n" + d))
                    continue
                res.append((impls[ty], "SIB wmul %s" % ty, "pass" if s2 == ref else "undecided",
                            "same body as u8::wmul modulo types" if s2 == ref else "lead: body differs from u8::wmul:\n" + _diff(ref or "", s2)))
            res.append((impls["u128"], "SIB wmul u128", "undecided",
                        "u128::wmul (4-limb schoolbook) has no sibling to compare with: not decided"))
            continue
        sigs = {ty: _signature(impls[ty], ty) for ty in WORD_TYPES}
        ref = sigs["u64"]
        for ty in WORD_TYPES:
            if ty == "usize":
                ok, d = _usize_like_u64(impls)
                res.append((impls[ty], "SIB %s usize" % name, "pass" if ok else "undecided",
                            "same body as u64::%s with the type renamed" % name if ok else "lead: body differs from u64::%s:\n%s" % (name, d)))
                continue
            ok = sigs[ty] == ref
            res.append((impls[ty], "SIB %s %s" % (name, ty), "pass" if ok else "undecided",
                        "same body as u64::%s modulo the word type" % name if ok else
                        "lead: body differs from u64::%s:\n%s" % (name, _diff(ref, sigs[ty]))))
    return res


def _diff(a, b):
    import difflib
    return "\n".join(list(difflib.unified_diff(a.splitlines(), b.splitlines(), lineterm="", n=0))[:12])


# --------------------------------------------------------------------------------------------
# SIB: by-reference twins of Bvd (Shl/Shr/Not for &Bvd vs the in-place kernels)
# --------------------------------------------------------------------------------------------

def _slots_shift(b):
    """slot expressions of a shift kernel: narrowed amount, loop conditions, chunk length, old index, extracted chunk"""
    slots = {}
    for bb, t, fn in b.iter_calls():
        if fn and fn["name"] == "map_or":
            slots["narrow"] = show(b.e_call(t))
    conds = []
    for hdr, body in b.loops():
        for sb, cond, ts, fs in guard.cond_edges(b):
            if sb in body and (ts not in body or fs not in body):
                conds.append(show(cond))
    slots["loop_conds"] = sorted(set(conds))
    for l, d in enumerate(b.locals):
        nm = d.get("name")
        if nm in ("l", "old_idx", "d") and d["user"]:
            fd = b.full_defs(l)
            if fd:
                slots.setdefault(nm, sorted({show(b.e_def(x, 1, frozenset([l]))) for x in fd}))
    return slots


def byref_twins(crate):
    res = []
    def find(key):
        for b in crate.bodies:
            if b.key == key:
                return b
        return None
    for ty in WORD_TYPES:
        for tr, m in (("Shl", "shl"), ("Shr", "shr")):
            a = find("<&Bvd as %s<%s>>::%s" % (tr, ty, m))
            c = find("<Bvd as %sAssign<%s>>::%s_assign" % (tr, ty, m))
            key = "SIB &Bvd %s<%s> vs %sAssign" % (tr, ty, tr)
            if a is None or c is None:
                res.append((a or c, key, "violation", "twin kernel missing"))
                continue
            sa, sc = _slots_shift(a), _slots_shift(c)
            diffs = []
            missing = []
            for slot in ("narrow", "l", "old_idx"):
                va, vc = sa.get(slot), sc.get(slot)
                if va is None or vc is None:
                    missing.append("slot %s not found (%s / %s)" % (slot, va, vc))
                elif _norm_self(va) != _norm_self(vc):
                    diffs.append("slot `%s` differs: by-reference %s vs in-place %s" % (slot, va, vc))
            # the main loop condition of the by-reference kernel must be one of the in-place kernel's
            la = [_norm_self(x) for x in sa["loop_conds"]]
            lc = [_norm_self(x) for x in sc["loop_conds"]]
            if not la or any(x not in lc for x in la):
                diffs.append("loop condition differs: by-reference %s vs in-place %s" % (sa["loop_conds"], sc["loop_conds"]))
            # chunk extraction: (self.data[old/BU] >> old%BU) & mask(l), placed << new%BU
            ea = _chunk_expr(a)
            ec = _chunk_expr(c)
            if ea is None or ec is None or _norm_self(ea) != _norm_self(ec):
                diffs.append("extracted chunk differs: %s vs %s" % (ea, ec))
            if not diffs and missing:
                res.append((a, key, "undecided", "twins are no longer comparable slot by slot: %s" % "; ".join(missing)))
                continue
            res.append((a, key, "undecided" if diffs else "pass",
                        "; ".join(missing + diffs) if diffs else "narrowing, loop condition, chunk length, old index and chunk agree"))
    a, c = find("<&Bvd as Not>::not"), find("<Bvd as Not>::not")
    if a is not None and c is not None:
        from . import mask as maskmod
        ma = [m for m in maskmod.find_mask_events(a, storage.events(a))]
        mc = [m for m in maskmod.find_mask_events(c, storage.events(c))]
        ok = len(ma) == 1 and len(mc) == 1 and ma[0].form == mc[0].form and show(ma[0].L) == show(mc[0].L)
        neg_a = any(x[:2] == ("un", "Not") for bb in [0] for x in [])
        res.append((a, "SIB &Bvd Not vs Not", "pass" if ok else "undecided",
                    "same truncation %s" % (ma[0].detail if ma else "?") if ok else "truncation differs: %s vs %s"
                    % ([m.detail for m in ma], [m.detail for m in mc])))
    return res


def _norm_self(s):
    if isinstance(s, list):
        return [_norm_self(x) for x in s]
    if s is None:
        return "<none>"
    return s.replace("Bvd::", "").replace("Self::", "")


def _chunk_expr(b):
    for e in storage.events(b):
        if e.kind == "write":
            v = e.value if e.how == "assign" else (e.value[0] if e.value else None)
            if v is None:
                continue
            for x in walk(v):
                if is_bin(x, "BitAnd") and is_bin(x[2], "Shr") and is_call(x[3], "mask"):
                    return show(x)
    return None


# --------------------------------------------------------------------------------------------
# LEN: length-effect summaries (specification table written from the property statements)
# --------------------------------------------------------------------------------------------

def P(name):
    return ("param", name)


SELF_LEN = ("field", ("param", "self"), "length")


def _count_chars(e):
    return is_call(e, "count") and e[3] and is_call(e[3][0], "chars")


def _range_len(e, r):
    """e is `r.end - r.start` in one of its spellings (the subtraction itself is DECR's business)"""
    end, start = ("field", r, "end"), ("field", r, "start")
    if is_call(e, "saturating_sub") and tuple(e[3]) == (end, start):
        return True
    if is_call(e, "len") and len(e[3]) == 1 and e[3][0] == r:
        return True         # ExactSizeIterator::len of a Range<usize>
    if is_bin(e, "Sub") and e[2] == end and is_call(e[3], "min") and set(e[3][3]) == {start, end}:
        return True
    return mir.lin_eq(e, ("bin", "Sub", end, start))


def _len_spec():
    """list of (description, selector(body)->bool, expected(kind, expr, body)->bool)"""
    def fam(*f):
        return lambda b: b.self_family in f

    specs = [
        ("zeros/ones: length n", lambda b: b.trait == "BitVector" and b.name in ("zeros", "ones") and b.self_family in ("Bvf", "Bvd"),
         lambda k, e, b: e == P(b.local_name(1))),
        ("with_capacity: length 0", lambda b: b.trait == "BitVector" and b.name == "with_capacity" and b.self_family == "Bvd",
         lambda k, e, b: e == ("int", 0)),
        ("from_binary: chars(s)", lambda b: b.trait == "BitVector" and b.name == "from_binary" and b.self_family in ("Bvf", "Bvd"),
         lambda k, e, b: _count_chars(e)),
        ("from_hex: 4*chars(s)", lambda b: b.trait == "BitVector" and b.name == "from_hex" and b.self_family in ("Bvf", "Bvd"),
         lambda k, e, b: is_bin(e, "Mul") and ((_count_chars(e[2]) and e[3] == ("int", 4)) or (_count_chars(e[3]) and e[2] == ("int", 4)))),
        ("from_bytes: 8*len(bytes)", lambda b: b.trait == "BitVector" and b.name == "from_bytes" and b.self_family in ("Bvf", "Bvd"),
         lambda k, e, b: is_bin(e, "Mul") and is_call(e[2], "len") and e[3] == ("int", 8)),
        ("read: len", lambda b: b.trait == "BitVector" and b.name == "read" and b.self_family in ("Bvf", "Bvd"),
         lambda k, e, b: e == P(b.local_name(2))),
        ("copy_range: e - s", lambda b: b.trait == "BitVector" and b.name == "copy_range" and b.self_family in ("Bvf", "Bvd"),
         lambda k, e, b: _range_len(e, P(b.local_name(2)))),
        ("push: len+1", lambda b: b.trait == "BitVector" and b.name == "push" and b.self_family in ("Bvf", "Bvd"),
         lambda k, e, b: mir.lin_eq(e, ("bin", "Add", SELF_LEN, ("int", 1)))),
        ("pop: len-1", lambda b: b.trait == "BitVector" and b.name == "pop" and b.self_family in ("Bvf", "Bvd"),
         lambda k, e, b: mir.lin_eq(e, ("bin", "Sub", SELF_LEN, ("int", 1)))),
        ("resize: n", lambda b: b.trait == "BitVector" and b.name == "resize" and b.self_family in ("Bvf", "Bvd"),
         lambda k, e, b: e == P(b.local_name(2))),
        ("fresh result of a kernel: self.length", lambda b: b.self_family in ("Bvf", "Bvd") and (
            (b.trait in ("Shl", "Shr", "Not", "Mul") and b.loops()) or (b.trait == "Not")) and b.trait != "BitVector",
         lambda k, e, b: e == SELF_LEN),
        ("TryFrom<uN> for Bvf: BITS / min(BITS, capacity)", lambda b: b.trait == "TryFrom" and b.self_family == "Bvf" and b.trait_args and b.trait_args[0] in WORD_TYPES,
         lambda k, e, b: (e[0] == "cast" and e[1][0] == "assoc" and e[1][1] == "BITS") or (
             is_call(e, "min") and any(guard.is_capacity_call(a) for a in e[3]) and any(a[0] == "cast" and a[1][0] == "assoc" and a[1][1] == "BITS" for a in e[3]))),
        ("From<uN> for Bvd: BITS", lambda b: b.trait == "From" and b.self_family == "Bvd" and b.trait_args and b.trait_args[0] in WORD_TYPES,
         lambda k, e, b: e[0] == "cast" and e[1][0] == "assoc" and e[1][1] == "BITS"),
        ("conversion between implementations: len(src)", lambda b: b.trait in ("TryFrom", "From") and b.self_family in ("Bvf", "Bvd") and b.trait_args
         and mir.ty_family(b.trait_args[0]) in ("Bvf", "Bvd", "Bv") and b.trait_args[0].startswith("&"),
         lambda k, e, b: (is_call(e, "len") and e[3] == (P(b.local_name(1)),)) or e == ("field", P(b.local_name(1)), "length")),
        ("Clone: same length", lambda b: b.trait == "Clone" and b.self_family in ("Bvf", "Bvd"),
         lambda k, e, b: is_call(e, "clone") and e[3] == (SELF_LEN,)),
        ("new: the given length", lambda b: b.trait is None and b.name == "new" and b.self_family in ("Bvf", "Bvd"),
         lambda k, e, b: e == P(b.local_name(2))),
    ]
    return specs


NO_LEN_CHANGE = ("set", "shl_in", "shr_in", "rotl", "rotr", "reserve", "shrink_to_fit", "get", "to_vec", "write",
                 "mod2n", "set_int", "get_int", "int_len", "is_zero", "leading_zeros", "leading_ones", "trailing_zeros",
                 "trailing_ones", "capacity", "len", "iter", "hash", "fmt", "eq", "cmp", "partial_cmp")
LEN_CHANGING_CALLS = ("push", "pop", "resize", "append", "prepend", "truncate", "sign_extend", "insert", "split_off", "extend")


def length_effects(crate):
    res = []
    specs = _len_spec()
    for b in crate.bodies:
        if b.kind == "Closure" or b.self_family not in ("Bvf", "Bvd"):
            continue
        evs = storage.events(b)
        lens = [("store", e.value, e) for e in evs if e.kind == "lenstore"]
        aggs = [("agg", e.length, e) for e in evs if e.kind == "agg"]
        items = lens + aggs
        matched = [s for s in specs if s[1](b)]
        opassign_kernel = b.trait in mir.OPASSIGN_METHODS.values() or (b.trait or "").endswith("Assign")
        if matched:
            desc, sel, exp = matched[0]
            if not items:
                # a fresh vector obtained from a checked constructor: zeros(n) / ones(n)
                ctor = [b.e_call(t) for bb, t, fn in b.iter_calls() if fn and fn["name"] in ("zeros", "ones")]
                if ctor:
                    for cexp in ctor:
                        ok = exp("ctor", cexp[3][0], b)
                        res.append((b, "%s|LEN ctor %s" % (b.key, show(cexp)), "pass" if ok else "violation",
                                    "%s: %s" % (desc, "ok" if ok else "built with `%s`" % show(cexp))))
                elif b.loops() and b.trait == "Not":
                    pass  # in-place kernel (mut self): covered by the `unchanged` rule below
                elif b.loops():
                    res.append((b, "%s|LEN" % b.key, "violation", "%s: no length is stored or built" % desc))
                elif desc.startswith("conversion between implementations"):
                    # the result is obtained from another conversion / constructor: its length is that callee's business only
                    # when the callee is handed the source itself; anything else (a slice of its words, a later conditional
                    # resize) needs the callee's length effect composed with this body's arithmetic - not decided here
                    src = P(b.local_name(1))
                    ret = b.return_expr()
                    alts = ret[2] if ret[0] == "phi" else (ret,)
                    def whole(a):
                        a = mir.strip_casts(a)
                        while is_call(a, ("from", "into", "try_from", "try_into", "clone", "unwrap", "expect", "to_owned")) and a[3]:
                            a = mir.strip_casts(a[3][0])
                        a = _strip_refs(a)
                        if a[0] == "field" and a[2] == "0" and a[1][0] == "variant":
                            a = _strip_refs(a[1][1])          # the payload of the source's current variant is the source
                        return a == src
                    touched = [ev for ev in evs if ev.kind == "mcall" and ev.name in LEN_CHANGING_CALLS]
                    if all(whole(a) for a in alts) and not touched:
                        res.append((b, "%s|LEN delegated" % b.key, "pass", "%s: delegates to another conversion of the whole source" % desc))
                    else:
                        res.append((b, "%s|LEN delegated" % b.key, "undecided",
                                    "%s: the result is assembled from other conversions / resize calls (%s); its length is not decided here"
                                    % (desc, ", ".join(sorted({ev.name for ev in touched})) or show(ret)[:60])))
            seen = set()
            for kind, e, ev in items:
                key = "%s|LEN %s %s" % (b.key, kind, show(e))
                if key in seen:
                    continue
                seen.add(key)
                ok = exp(kind, e, b)
                res.append((b, key, "pass" if ok else "violation",
                            "%s: %s" % (desc, "ok" if ok else "length is `%s`" % show(e))))
        if (not matched or (b.trait == "Not" and not items)) and (b.name in NO_LEN_CHANGE or opassign_kernel or b.trait == "Not"):
            bad = [show(e) for kind, e, ev in lens]
            calls = [ev.name for ev in evs if ev.kind == "mcall" and ev.name in LEN_CHANGING_CALLS and ev.args[0] == ("param", "self")]
            if b.trait in ("Shl", "Shr", "Mul"):
                continue
            ok = not bad and not calls
            res.append((b, "%s|LEN unchanged" % b.key, "pass" if ok else "violation",
                        "length is not modified" if ok else "modifies the length: stores %s, calls %s" % (bad, calls)))
        elif items and b.name in ("append", "prepend"):
            res.append((b, "%s|LEN" % b.key, "violation", "append/prepend store the length directly instead of going through resize"))
    # append / prepend: argument of the inner resize is len + len(x)
    for b in crate.bodies:
        if b.trait == "BitVector" and b.name in ("append", "prepend") and b.self_family in ("Bvf", "Bvd"):
            arg = ("param", b.local_name(2))
            found = False
            for e in storage.events(b):
                if e.kind == "mcall" and e.name == "resize" and e.args[0] == ("param", "self"):
                    found = True
                    n = e.args[1]
                    ok = is_bin(n, "Add") and n[2] == SELF_LEN and is_call(n[3], "len") and n[3][3] == (arg,)
                    res.append((b, "%s|LEN resize arg" % b.key, "pass" if ok else "violation",
                                "new length = self.length + len(%s)" % arg[1] if ok else "resizes to `%s`" % show(n)))
            if not found:
                res.append((b, "%s|LEN resize arg" % b.key, "violation", "%s does not resize self" % b.name))
    return res


def _is_byte_len(e, L):
    """(L + 7) / 8 in either spelling"""
    e = mir.strip_casts(e)
    if e[0] == "var" and len(e) > 2:
        return False
    return e == ("bin", "Div", ("bin", "Add", L, ("int", 7)), ("int", 8)) or (is_call(e, "div_ceil") and len(e[3]) == 2 and e[3] == (L, ("int", 8)))


def buffer_sizes(crate):
    """to_vec / read buffers have (len+7)/8 bytes"""
    res = []
    for b in crate.bodies:
        if b.trait == "BitVector" and b.name in ("to_vec", "read") and b.self_family in ("Bvf", "Bvd"):
            L = SELF_LEN if b.name == "to_vec" else P(b.local_name(2))
            want = ("bin", "Div", ("bin", "Add", L, ("int", 7)), ("int", 8))
            ok = any(_is_byte_len(n, L) for x, n in b.alloc_exprs())
            how = "byte buffer has (%s + 7) / 8 bytes" % show(L)
            if not ok and b.name == "to_vec":
                # (0..n).map(..).collect() / (0..n).rev().map(..).collect(): one byte per index of 0..(len + 7) / 8
                ret = b.return_expr()
                alts = ret[2] if ret[0] == "phi" else (ret,)
                def ranged(a):
                    if a[0] == "var" and len(a) > 2 and b.init_expr(a[2]) is not None:
                        a = b.init_expr(a[2])          # `let mut buf = (0..n).map(..).collect(); if big { buf.reverse() } buf`
                    return is_call(a, "collect") and any(x[0] == "agg" and x[1] == "Range" and len(x[3]) == 2 and x[3][0] == ("int", 0)
                                                          and _is_byte_len(x[3][1], L) for x in walk(a) if isinstance(x, tuple) and x)
                if alts and all(ranged(a) for a in alts):
                    ok = True
                    how = "every returned byte stream is collected from the index range 0..(len + 7) / 8"
            if not ok and b.name == "to_vec":
                # iterator form: every returned alternative is a chain bounded by take((len + 7) / 8)
                ret = b.return_expr()
                alts = ret[2] if ret[0] == "phi" else (ret,)
                bounded = [any(is_call(x, "take") and len(x[3]) == 2 and x[3][1] == want for x in walk(a)) for a in alts]
                if alts and all(bounded):
                    ok = True
                    how = "every returned byte stream is bounded by take((len + 7) / 8)"
                elif any(bounded):
                    how = ("only %d of %d returned byte streams are bounded by take((len + 7) / 8): the byte count of the others "
                           "depends on something else (e.g. the allocation)" % (sum(bounded), len(alts)))
            res.append((b, "%s|buffer size" % b.key, "pass" if ok else "violation",
                        how if ok else (how if "only" in how else "no buffer / byte stream of (len + 7) / 8 bytes found")))
    return res


# --------------------------------------------------------------------------------------------
# ERR: error discipline
# --------------------------------------------------------------------------------------------

def err_discipline(crate, names=("read", "write", "from_binary", "from_hex", "from_bytes", "try_from")):
    """every Result produced inside these functions is propagated (`?`, map_err(..)?, returned) - never dropped,
    unwrapped or defaulted"""
    res = []
    for b in crate.bodies:
        if b.kind == "Closure" or b.name not in names or b.self_family not in ("Bvf", "Bvd", "Bv"):
            continue
        if b.trait not in ("BitVector", "TryFrom"):
            continue
        producers = []
        for bb, t, fn in b.iter_calls():
            d = t["d"]
            if d["pr"]:
                continue
            ty = b.local_ty(d["l"])
            if ty.startswith("std::result::Result<") or ty.startswith("Result<"):
                if fn and fn["name"] in ("map_err", "branch", "from_residual", "from_output"):
                    continue
                producers.append((bb, t, fn, b.e_call(t)))
        consumers = []
        for bb, t, fn in b.iter_calls():
            if fn and fn["name"] in ("branch", "map_err"):
                consumers.append(b.e_operand(t["args"][0]))
        ret = b.return_expr()
        for bb, t, fn, e in producers:
            key = "%s|ERR %s" % (b.key, show(e)[:70])
            used = any(any(x == e for x in walk(c)) for c in consumers) or any(x == e for x in walk(ret))
            bad_use = None
            for cb, ct, cfn in b.iter_calls():
                if cfn and cfn["name"] in ("unwrap", "expect", "ok", "unwrap_or", "unwrap_or_default", "is_ok", "is_err") \
                        and ct["args"] and b.e_operand(ct["args"][0]) == e:
                    bad_use = cfn["name"]
            if bad_use:
                res.append((b, key, "violation", "Result of %s is consumed by .%s() instead of being propagated" % (show(e)[:50], bad_use)))
            elif not used:
                res.append((b, key, "violation", "Result of %s is dropped (neither `?` nor returned)" % show(e)[:60]))
            else:
                res.append((b, key, "pass", "propagated"))
    return res


def read_protocol(crate):
    """read: exactly one read_exact, on the (len+7)/8 buffer, after the capacity guard (Bvf)"""
    res = []
    for b in crate.bodies:
        if not (b.trait == "BitVector" and b.name == "read" and b.self_family in ("Bvf", "Bvd")):
            continue
        res_calls = [(bb, t) for bb, t, fn in b.iter_calls() if fn and fn["name"] in ("read_exact", "read", "read_to_end", "read_vectored", "read_buf")
                     and fn.get("trait", "").endswith("io::Read")]
        key = "%s|read protocol" % b.key
        if len(res_calls) != 1 or res_calls[0][1]["f"]["fn"]["name"] != "read_exact":
            res.append((b, key, "violation", "expected exactly one read_exact on the reader, found %s"
                        % [t["f"]["fn"]["name"] for _, t in res_calls]))
            continue
        bb, t = res_calls[0]
        if any(bb in body for hdr, body in b.loops()):
            res.append((b, key, "violation", "read_exact is called in a loop"))
            continue
        buf = b.e_operand(t["args"][1])
        root = None
        for x in walk(buf):
            if isinstance(x, tuple) and x and x[0] == "var":
                root = x
        ok = False
        if root is not None:
            init = b.init_expr(root[2])
            want = ("bin", "Div", ("bin", "Add", P(b.local_name(2)), ("int", 7)), ("int", 8))
            if init is not None and is_call(init, "collect") and is_call(init[3][0], "take") and _is_byte_len(init[3][0][3][1], P(b.local_name(2))):
                ok = True
        if not ok:
            res.append((b, key, "violation", "read_exact does not fill the whole (len + 7) / 8 byte buffer (%s)" % show(buf)))
            continue
        if mir.contains(buf, lambda x: is_call(x, "index_mut") and x[3][1] != ("agg", "RangeFull", "RangeFull", ())):
            res.append((b, key, "violation", "read_exact fills only part of the buffer: %s" % show(buf)))
            continue
        if b.self_family == "Bvf":
            g = False
            for sb, cond, taken, succ, other in guard.edges_dominating(b, bb):
                for op, l, r in guard.relations_on_edge(cond, taken):
                    if op == "Le" and l == P(b.local_name(2)) and guard.is_capacity_call(r):
                        g = True
            if not g:
                res.append((b, key, "violation", "the reader is consumed before the capacity check"))
                continue
        res.append((b, key, "pass", "one read_exact over the whole ceil(len/8)-byte buffer%s"
                    % (", after the capacity check" if b.self_family == "Bvf" else "")))
    return res


def _digit_class(crate, b, radix):
    """how the parser decides that a character is a digit of the given radix: char::to_digit(radix) (directly or through a
    helper introduced later, seen through by inlining), or - for binary - a match on exactly '0' | '1'. A classifier that
    alters the character's code with a constant (`c as u8 | 0x20`) before testing it is a violation: code points outside
    the digit set fold onto digits. Anything else is a hand-written classifier this rule does not read: undecided."""
    pool = [b.e_call(t) for bb, t, fn in b.iter_calls()]
    radices = []
    for e in pool:
        for x in walk(e):
            if is_call(x, "to_digit") and len(x[3]) == 2:
                radices.append(x[3][1])
    if radices:
        if all(r == ("int", radix) for r in radices):
            return "pass", "digits classified by char::to_digit(%d)" % radix
        return "violation", "digits are classified by to_digit(%s), expected radix %d" % (", ".join(sorted({show(r) for r in radices})), radix)
    bodies = [b]
    for bb, t, fn in b.iter_calls():
        h = crate.new_helper(fn)
        if h is not None and h not in bodies:
            bodies.append(h)
    if radix == 2:
        for hb in bodies:
            for sb, t in hb.iter_switches():
                e, m = hb.switch_cond(sb)
                is_char = (e[0] == "field" and e[2] == "1" and e[1][0] == "iv") or \
                    (e[0] == "param" and any(hb.local_name(l) == e[1] and hb.local_ty(l) == "char" for l in range(1, hb.arg_count + 1)))
                if is_char:
                    vals = sorted(v for s2, vs in m.items() for v in vs if v != "otherwise")
                    if vals == ["48", "49"]:
                        return "pass", "characters are matched against exactly '0' | '1'"
                    return "violation", "binary digits are matched against code points %s, expected exactly '0' (48) and '1' (49)" % vals
    for hb in bodies:
        tests = [hb.switch_cond(sb)[0] for sb, t in hb.iter_switches()] + [c for _, c, _, _ in guard.cond_edges(hb)]
        for e in tests:
            for x in walk(e):
                if is_bin(x, ("BitOr", "BitAnd", "BitXor")) and any(y[:1] == ("int",) for y in (x[2], x[3])) and \
                        mir.contains(x, lambda z: isinstance(z, tuple) and (z[:1] == ("iv",) or z[:1] == ("param",))):
                    return "violation", ("the character's code is altered (`%s`) before it is tested: code points outside the digit set "
                                         "fold onto digits" % show(x)[:60])
    return "undecided", "the digit classifier is hand-written in a form this rule does not read (no to_digit(%d)%s)" % (
        radix, ", no match on '0' | '1'" if radix == 2 else "")


def parse_protocol(crate):
    """from_binary/from_hex: InvalidFormat carries the forward enumerate() index; digit classes; capacity first"""
    res = []
    for b in crate.bodies:
        if not (b.trait == "BitVector" and b.name in ("from_binary", "from_hex") and b.self_family in ("Bvf", "Bvd")):
            continue
        # InvalidFormat payload
        found = False
        for bb, i, st in b.iter_stmts():
            if st["s"] == "assign" and st["r"]["k"] == "agg" and st["r"].get("variant") == "InvalidFormat":
                found = True
                p = b.e_operand(st["r"]["fs"][0])
                key = "%s|InvalidFormat payload" % b.key
                ok = p[0] == "field" and p[2] == "0" and p[1][0] == "iv"
                if ok:
                    src = b.iter_source(p[1][1])
                    # the counter must be attached to the characters themselves: enumerate() applied directly to chars(),
                    # wherever the enumerated iterator is then stored, borrowed or cut into per-word pieces
                    # (`let mut it = s.chars().enumerate(); for (i, c) in it.by_ref().take(n)`). An enumerate() applied
                    # to a piece (`chars.by_ref().take(n).enumerate()`) restarts at every piece.
                    cur = src
                    for _ in range(8):
                        if is_call(cur, ("take", "by_ref", "skip", "into_iter", "peekable", "fuse")) and cur[3]:
                            cur = cur[3][0]
                        elif cur[0] == "var" and len(cur) > 2 and b.init_expr(cur[2]) is not None:
                            cur = b.init_expr(cur[2])
                        else:
                            break
                    ok = is_call(cur, "enumerate") and cur[3]
                    if ok:
                        inner = cur[3][0]
                        if inner[0] == "var" and len(inner) > 2 and b.init_expr(inner[2]) is not None:
                            inner = b.init_expr(inner[2])
                        ok = is_call(inner, "chars")
                    if not ok:
                        res.append((b, key, "violation", "error index comes from `%s`, not chars().enumerate() iterated forwards" % show(src)))
                        continue
                    res.append((b, key, "pass", "payload is the forward enumerate() index of the offending character"))
                else:
                    res.append((b, key, "violation", "InvalidFormat carries `%s`, not the character index" % show(p)))
                # the digit loop is dominated by the capacity check (Bvf)
                if b.self_family == "Bvf":
                    g = False
                    for sb, cond, taken, succ, other in guard.edges_dominating(b, bb):
                        for op, l, r in guard.relations_on_edge(cond, taken):
                            if op == "Le" and guard.is_capacity_call(r):
                                g = True
                    res.append((b, "%s|capacity before digits" % b.key, "pass" if g else "violation",
                                "capacity test dominates the digit loop" if g else
                                "a bad character is reported before the capacity is checked"))
        if not found:
            res.append((b, "%s|InvalidFormat payload" % b.key, "violation", "no InvalidFormat error is ever produced"))
        # digit classes
        key = "%s|digit class" % b.key
        v, why = _digit_class(crate, b, 2 if b.name == "from_binary" else 16)
        res.append((b, key, v, why))
    return res


# --------------------------------------------------------------------------------------------
# CONST
# --------------------------------------------------------------------------------------------

def _zero_test(rel, p):
    """'zero' / 'nonzero' when the relation (op, lhs, rhs) says so about the unsigned parameter p, else None"""
    op, x, y = rel
    if x == p and y == ("int", 0):
        return {"Eq": "zero", "Ne": "nonzero", "Gt": "nonzero", "Le": "zero"}.get(op)
    if x == p and y == ("int", 1):
        return {"Ge": "nonzero", "Lt": "zero"}.get(op)
    return None


def _bit_from_word(b):
    """<Bit as From<uN | bool>>::from judged as a map {0/false -> Zero, anything else -> One}, whatever its spelling:
    a match on the value, an if on `u == 0` / `u != 0`, or forwarding `u != 0` to From<bool>"""
    p = ("param", b.local_name(1))
    r = b.return_expr()
    if is_call(r, "from") and len(r[3]) == 1 and "Bit" in (r[2] or ""):
        a = r[3][0]
        if is_bin(a, ("Eq", "Ne", "Gt", "Ge", "Lt", "Le")):
            for rel in guard.relations_on_edge(a, True):
                z = _zero_test(rel, p)
                if z == "nonzero":
                    return "pass", "Bit::from(u != 0): 0 -> Zero, anything else -> One (through From<bool>)"
                if z == "zero":
                    return "violation", "forwards `%s` to From<bool>: zero maps to One" % show(a)
        return "undecided", "forwards `%s` to another conversion: not decided" % show(a)[:60]
    arms = {}
    for x in sorted(b.reachable_blocks()):
        for st in b.blocks[x]["st"]:
            if st["s"] == "assign" and st["p"]["l"] == 0 and not st["p"]["pr"] and st["r"]["k"] == "agg":
                arms[x] = st["r"].get("variant")
    if not arms:
        return "undecided", "returns %s: a form this rule does not model" % show(r)[:60]
    seen = {}
    for x, variant in arms.items():
        when = None
        for sb, t in b.iter_switches():
            e, m = b.switch_cond(sb)
            if e == p:
                for s2, vs in m.items():
                    if b.edge_dominates((sb, s2), x) or s2 == x:
                        when = "zero" if vs == ["0"] else "nonzero" if "0" not in vs else None
        if when is None:
            for sb, cond, taken, _, _ in guard.edges_dominating(b, x):
                for rel in guard.relations_on_edge(cond, taken):
                    when = when or _zero_test(rel, p)
        if when is None:
            return "undecided", "the condition under which %s is returned is not in a form this rule reads" % variant
        seen[when] = variant
    if seen == {"zero": "Zero", "nonzero": "One"}:
        return "pass", "0/false -> Zero, anything else -> One"
    return "violation", "mapping is not {0 => Zero, _ => One}: %s" % seen


def _word_from_bit(b):
    p = ("param", b.local_name(1))
    r = mir.strip_casts(b.return_expr())
    if r == ("discr", p) or r == p:
        return "pass", "`bit as T`: the discriminants of Bit are Zero = 0, One = 1"
    ok = None
    for sb, t in b.iter_switches():
        e, m = b.switch_cond(sb)
        if e == ("discr", p):
            z = [s2 for s2, vs in m.items() if "0" in vs]
            o = [s2 for s2, vs in m.items() if "1" in vs]
            if len(z) == 1 and len(o) == 1:
                ok = _assigns_const(b, z[0], (0, "false")) and _assigns_const(b, o[0], (1, "true"))
    if ok is None:
        return "undecided", "returns %s: a form this rule does not model" % show(b.return_expr())[:60]
    return ("pass", "Zero -> 0/false, One -> 1/true") if ok else ("violation", "mapping is not {Zero => 0, One => 1}")


def bit_conversions(crate):
    res = []
    for b in crate.bodies:
        if b.trait != "From" or b.kind == "Closure":
            continue
        st = b.self_ty
        arg = b.trait_args[0] if b.trait_args else None
        if st == "Bit" and arg in WORD_TYPES + ("bool",):
            v, why = _bit_from_word(b)
            res.append((b, "%s|CONST" % b.key, v, why))
        elif arg == "Bit" and st in WORD_TYPES + ("bool",):
            v, why = _word_from_bit(b)
            res.append((b, "%s|CONST" % b.key, v, why))
    return res


def _straight(b, blk, limit=4):
    out = []
    while blk is not None and limit > 0:
        out.append(blk)
        s = b.succ[blk]
        if len(s) != 1:
            break
        blk = s[0]
        limit -= 1
    return out


def _assigns_variant(b, blk, variant):
    for x in _straight(b, blk):
        for st in b.blocks[x]["st"]:
            if st["s"] == "assign" and st["p"]["l"] == 0 and st["r"]["k"] == "agg":
                return st["r"].get("variant") == variant
    return False


def _assigns_const(b, blk, vals):
    for x in _straight(b, blk):
        for st in b.blocks[x]["st"]:
            if st["s"] == "assign" and st["p"]["l"] == 0 and st["r"]["k"] == "use" and st["r"]["o"]["k"] == "const":
                o = st["r"]["o"]
                if "int" in o:
                    return int(o["int"]) == vals[0]
                return o["v"] == vals[1]
    return False


# --------------------------------------------------------------------------------------------
# SAFE
# --------------------------------------------------------------------------------------------
INTERIOR = ("Cell<", "RefCell<", "Atomic", "Mutex<", "RwLock<", "UnsafeCell<", "*mut", "*const", "Rc<", "Arc<", "OnceCell", "LazyCell")


def safe_facts(crate):
    f = crate.facts
    res = []
    ub = [u for u in f["unsafe_blocks"] if u["src"] == "UserProvided" and not u["from_expansion"]]
    fns = sorted(u["fn"] for u in ub)
    ok = fns == ["<[I] as utils::IArray>::get_int", "<[I] as utils::IArrayMut>::set_int"] and not f["unsafe_fns"]
    res.append((None, "SAFE unsafe census", "pass" if ok else "violation",
                "exactly two unsafe blocks: [I]::get_int (align_to) and [I]::set_int (align_to_mut)" if ok else
                "unsafe blocks in %s, unsafe fns %s" % (fns, f["unsafe_fns"])))
    # what the unsafe blocks call
    for path, allowed in (("<[I] as utils::IArray>::get_int", "align_to"), ("<[I] as utils::IArrayMut>::set_int", "align_to_mut")):
        b = crate.body(path)
        if b is None:
            res.append((None, "SAFE %s" % path, "violation", "function not found"))
            continue
        uns = [fn["name"] for bb, t, fn in b.iter_calls() if fn and "align_to" in fn["name"] or (fn and fn["name"] in ("transmute", "from_raw_parts", "from_raw_parts_mut", "read", "write", "offset", "add"))]
        ok = uns == [allowed]
        mutself = b.locals[1]["ty"].startswith("&") and " mut " in b.locals[1]["ty"][:20]
        ok = ok and (mutself == (allowed == "align_to_mut"))
        res.append((b, "SAFE %s" % b.key, "pass" if ok else "violation",
                    "only unsafe operation is %s on %s" % (allowed, "&mut self" if mutself else "&self") if ok else "unsafe operations: %s" % uns))
        # the reinterpretation happens only under size_of::<I>() >= size_of::<J>()
    # layout table
    lay = {l["ty"]: l for l in f["layouts"]}
    bad = []
    n = 0
    for i in WORD_TYPES:
        for j in WORD_TYPES:
            n += 1
            if lay[i]["size"] >= lay[j]["size"]:
                if lay[i]["size"] % lay[j]["size"] or lay[i]["align"] % lay[j]["align"]:
                    bad.append((i, j))
    res.append((None, "SAFE layout 36 pairs", "pass" if not bad and n == 36 else "violation",
                "size(I) %% size(J) == 0 and align(I) %% align(J) == 0 for all %d (I, J) with size(I) >= size(J): align_to yields empty head/tail"
                % n if not bad else "layout divisibility fails for %s" % bad))
    # no interior mutability in the vector types
    for name in ("fixed::Bvf", "dynamic::Bvd", "auto::Bv", "iter::BitIterator"):
        a = crate.adts.get(name)
        if a is None:
            res.append((None, "SAFE fields %s" % name, "violation", "ADT not found"))
            continue
        tys = [fl["ty"] for v in a["variants"] for fl in v["fields"]]
        bad = [t for t in tys if any(k in t for k in INTERIOR)]
        res.append((None, "SAFE fields %s" % name, "pass" if not bad else "violation",
                    "fields %s: no interior mutability, raw pointers or shared ownership" % tys if not bad else "fields with interior mutability: %s" % bad))
    it = crate.adts.get("iter::BitIterator")
    if it is not None:
        t = it["variants"][0]["fields"][0]["ty"]
        ok = t.startswith("&") and " mut " not in t
        res.append((None, "SAFE BitIterator holds &B", "pass" if ok else "violation", "bv: %s (shared borrow: iteration cannot modify the vector)" % t))
    tr = {t["path"]: t for t in f.get("traits", [])}
    integer = tr.get("utils::Integer")
    ok = integer is not None and not integer["exported"]
    res.append((None, "SAFE Integer sealed", "pass" if ok else "violation",
                "trait utils::Integer is not exported: the word-type set {u8,u16,u32,u64,u128,usize} is closed" if ok else
                "trait Integer is nameable outside the crate: user word types could add interior mutability"))
    # derived Clone for Bvd is a deep copy
    cl = [i for i in crate.impls if i["hdr"].get("trait", "").endswith("Clone") and i["hdr"]["self"].endswith("Bvd")]
    okc = bool(cl)
    res.append((None, "SAFE Bvd Clone", "pass" if okc else "violation", "Bvd: Clone clones the Box<[u64]> (deep copy)" if okc else "no Clone impl for Bvd"))
    return res


# --------------------------------------------------------------------------------------------
# ORDER: compositions in the trait defaults
# --------------------------------------------------------------------------------------------

def trait_defaults(crate):
    res = []
    defaults = {b.name: b for b in crate.bodies if b.trait_default_of == "BitVector"}
    overridden = {}
    for b in crate.bodies:
        if b.trait == "BitVector" and b.impl:
            overridden.setdefault(b.name, []).append(b.self_family)
    for name in ("first", "last", "split_off", "split", "truncate", "sign_extend", "insert", "significant_bits", "repeat", "is_empty"):
        ov = overridden.get(name)
        res.append((defaults.get(name), "ORDER default %s not overridden" % name, "pass" if (name in defaults and not ov) else "violation",
                    "single definition in the trait" if (name in defaults and not ov) else "overridden by %s / default missing" % ov))

    def calls_in_order(b):
        out = []
        for bb, t, fn in b.iter_calls():
            if fn:
                out.append((bb, fn["name"], tuple(b.e_operand(a) for a in t["args"])))
        return out

    b = defaults.get("split_off")
    if b is not None:
        cs = calls_in_order(b)
        cr = [c for c in cs if c[1] == "copy_range"]
        rs = [c for c in cs if c[1] == "resize"]
        ok = len(cr) == 1 and len(rs) == 1 and b.block_dominates(cr[0][0], rs[0][0]) and cr[0][0] != rs[0][0]
        if ok:
            rng = cr[0][2][1]
            ok = rng[0] == "agg" and rng[3][0] == P(b.local_name(2)) and is_call(rng[3][1], "len") and rs[0][2][1] == P(b.local_name(2)) \
                and show(rs[0][2][2]).endswith("Zero")
            ret = b.return_expr()
            ok = ok and is_call(ret, "copy_range")
        # another arrangement (a fast path for index == len, truncate instead of resize, mem::replace ..) is judged on the
        # lengths of the two halves per path (LENFLOW halves); the order rule itself only recognises the reviewed sequence -
        # and the one positive contradiction: the high part copied out of self *after* self was shrunk
        shrinks = [c for c in cs if c[1] in ("resize", "truncate") and c[2] and c[2][0] == P(b.local_name(1))]
        late = [c for c in cr if any(b.block_dominates(s_[0], c[0]) and s_[0] != c[0] for s_ in shrinks)]
        if not ok and late:
            res.append((b, "ORDER split_off", "violation", "copy_range runs after self was already resized: the bits above index are gone "
                        "(zero-filled) when they are copied"))
            ok = None
        if ok is not None:
          res.append((b, "ORDER split_off", "pass" if ok else "undecided",
                    "high = copy_range(index..len) happens before resize(index, Zero); returns high" if ok else
                    "split_off is not the reviewed copy_range(index..len) -> resize(index) -> high sequence: see LENFLOW halves"))
    b = defaults.get("split")
    if b is not None:
        ret = b.return_expr()
        ok = ret[0] == "tuple" and is_call(ret[1][0], "split_off") and ret[1][1] == P("self")
        res.append((b, "ORDER split", "pass" if ok else "undecided", "returns (split_off(index), self)" if ok else
                    "returns %s: not the reviewed (split_off(index), self); see LENFLOW halves" % show(ret)[:80]))
    b = defaults.get("insert")
    if b is not None:
        cs = [c for c in calls_in_order(b) if c[1] in ("split_off", "append", "prepend", "resize")]
        names = [c[1] for c in cs]
        ok = names == ["split_off", "append", "append"] and cs[1][2][1] == P(b.local_name(3)) and is_call(cs[2][2][1], "split_off") \
            and b.block_dominates(cs[0][0], cs[1][0]) and b.block_dominates(cs[1][0], cs[2][0]) and cs[0][2][1] == P(b.local_name(2))
        res.append((b, "ORDER insert", "pass" if ok else "violation",
                    "split_off(index); append(infix); append(tail)" if ok else "insert is %s" % [(c[1], [show(a) for a in c[2]]) for c in cs]))
    b = defaults.get("truncate")
    if b is not None:
        cs = [c for c in calls_in_order(b) if c[1] == "resize"]
        ok = len(cs) == 1 and cs[0][2][1] == P(b.local_name(2))
        g = False
        if ok:
            for sb, cond, taken, succ, other in guard.edges_dominating(b, cs[0][0]):
                for op, l, r in guard.relations_on_edge(cond, taken):
                    if op == "Lt" and l == P(b.local_name(2)) and is_call(r, "len"):
                        g = True
        res.append((b, "ORDER truncate", "pass" if ok and g else "violation",
                    "resize(new_len) only when new_len < len" if ok and g else "truncate is not `if new_len < len { resize(new_len) }`"))
    b = defaults.get("sign_extend")
    if b is not None:
        cs = [c for c in calls_in_order(b) if c[1] == "resize"]
        ok = len(cs) == 1 and cs[0][2][1] == P(b.local_name(2))
        sign_ok = False
        if ok:
            s = cs[0][2][2]
            # phi of Bit::Zero (len == 0) and get(self, len - 1)
            alts = s[2] if s[0] == "phi" else (s,)
            shown = sorted(show(a) for a in alts)
            sign_ok = len(alts) == 2 and any(x.endswith("Zero") for x in shown) and any(
                is_call(a, "get") and is_bin(a[3][1], "Sub") and a[3][1][3] == ("int", 1) for a in alts)
        if ok and not sign_ok and crate.closures_of.get(b.path):
            res.append((b, "ORDER sign_extend", "undecided", "the sign bit is selected inside a closure (combinator style): not decided"))
            ok = None
        if ok is not None:
          res.append((b, "ORDER sign_extend", "pass" if ok and sign_ok else "violation",
                    "resize(new_length, match len {0 => Zero, l => get(l-1)})" if ok and sign_ok else "sign_extend has an unexpected shape"))
    for nm, idx in (("first", ("int", 0)), ("last", None)):
        b = defaults.get(nm)
        if b is None:
            continue
        gets = [(bb, t) for bb, t, fn in b.iter_calls() if fn and fn["name"] == "get"]
        ok = len(gets) == 1
        g = False
        if ok:
            bb, t = gets[0]
            i = b.e_operand(t["args"][1])
            ok = (i == idx) if idx else (is_bin(i, "Sub") and is_call(i[2], "len") and i[3] == ("int", 1))
            from . import arith as _arith
            rels = _arith._relations_at(b, bb)
            ln = ("call", "len", None, (P("self"),))
            for op, l, r in rels:
                # any spelling of len(self) > 0: `> 0`, `!= 0`, `>= 1`, not `== 0`, `match len { 0 => .., n => .. }`
                if is_call(l, "len") and l[3] == (P("self"),) and (
                        (op in ("Gt", "Ne") and r == ("int", 0)) or (op == "Ge" and r == ("int", 1))):
                    g = True
                if is_call(r, "len") and r[3] == (P("self"),) and ((op == "Lt" and l == ("int", 0)) or (op == "Le" and l == ("int", 1))):
                    g = True
            for sb, cond, taken, succ, other in guard.edges_dominating(b, bb):
                # `if self.is_empty() { None } else { .. }`: is_empty is the un-overridden trait default len() == 0 (DEFS)
                if is_call(cond, "is_empty") and cond[3] == (P("self"),) and not taken:
                    g = True
        ret = b.return_expr()
        alts = ret[2] if ret[0] == "phi" else (ret,)
        none_ok = any(show(a).endswith("None") for a in alts)
        if not gets and crate.closures_of.get(b.path):
            # written with Option / bool combinators (`(!is_empty()).then(|| get(0))`, `len.checked_sub(1).map(|i| get(i))`):
            # the element access sits in a closure, which this rule does not read
            res.append((b, "ORDER %s" % nm, "undecided", "%s reads the bit inside a closure (combinator style): not decided" % nm))
            continue
        res.append((b, "ORDER %s" % nm, "pass" if ok and g and none_ok else "violation",
                    "%s: Some(get(%s)) under len > 0, else None" % (nm, "0" if idx else "len-1") if ok and g and none_ok else "%s has an unexpected shape" % nm))
    # pop: get before set before len store (both impls)
    for b in crate.bodies:
        if b.trait == "BitVector" and b.name == "pop" and b.self_family in ("Bvf", "Bvd"):
            cs = calls_in_order(b)
            g = [c for c in cs if c[1] == "get"]
            s = [c for c in cs if c[1] == "set"]
            if len(g) == 1 and len(s) == 1:
                ok = b.block_dominates(g[0][0], s[0][0])
                res.append((b, "ORDER %s" % b.key, "pass" if ok else "violation",
                            "reads bit len-1 before clearing it" if ok else "pop clears the bit (set) before reading it (get)"))
            else:
                # raw word access instead of get/set: the read/clear order is not visible at call level
                res.append((b, "ORDER %s" % b.key, "undecided",
                            "pop does not use one get and one set (%d get, %d set): read-before-clear order not decided" % (len(g), len(s))))
    # Extend / FromIterator: reserve/with_capacity + push only
    for b in crate.bodies:
        if b.kind == "Closure" or b.trait not in ("Extend", "FromIterator") or b.self_family not in ("Bvf", "Bvd", "Bv"):
            continue
        names = [fn["name"] for bb, t, fn in b.iter_calls() if fn]
        allowed = {"into_iter", "size_hint", "with_capacity", "reserve", "for_each"}
        extra = [n for n in names if n not in allowed]
        cl = crate.closures_of.get(b.path, [])
        clnames = [fn["name"] for c in cl for bb, t, fn in c.iter_calls() if fn]
        ok = not extra and clnames == ["push"] and "for_each" in names
        res.append((b, "ORDER %s" % b.key, "pass" if ok else "violation",
                    "%s + for_each(push)" % ("with_capacity" if b.trait == "FromIterator" else "reserve") if ok else
                    "calls %s, closure calls %s" % (names, clnames)))
    return res


# --------------------------------------------------------------------------------------------
# COVER: the word loops of an op-assign kernel cover every word of self, rhs word at the same index
# --------------------------------------------------------------------------------------------

def _total_words(b):
    """expression(s) denoting the number of words of self the kernel must cover"""
    if b.self_family == "Bvf":
        return [("cparam", "N"), ("cparam", "N1")]
    return [("call", "capacity_from_bit_len", None, (SELF_LEN,))]


def _is_total(e, totals, b):
    for t in totals:
        if e == t:
            return True
        if t[0] == "call" and is_call(e, t[1]) and e[3] == t[3]:
            return True
    return False


def kernel_coverage(crate):
    res = []
    for b in crate.bodies:
        if b.kind == "Closure" or b.self_family not in ("Bvf", "Bvd"):
            continue
        if b.trait not in ("AddAssign", "SubAssign", "BitAndAssign", "BitOrAssign", "BitXorAssign"):
            continue
        moved = moved_into_helpers(b)
        if moved and not b.loops():
            res.append((b, "%s|word coverage" % b.key, "undecided",
                        "the word loop lives in the helper(s) %s introduced after the review: coverage not decided" % ", ".join(moved)))
            continue
        if not b.loops():
            continue
        totals = _total_words(b)
        evs = storage.events(b)
        from . import mask as maskmod
        maskmod.find_mask_events(b, evs)
        ws = [e for e in evs if e.kind == "write" and not getattr(e, "is_mask", False) and e.obj == ("param", "self")]
        heads, tails, fulls, other = [], [], [], []
        probs = []
        unmodelled = []
        seen_iv = set()
        for w in ws:
            if w.index is not None and w.index[0] == "iter":
                # written through a mutable iterator whose walk the desugaring does not model (zip with a chained / mapped
                # partner, ...): which words it visits is not decided here
                unmodelled.append("words written through `%s`" % show(w.index[1])[:70])
                continue
            if w.index is not None and w.index[0] == "var" and len(w.index) > 2 and b.locals[w.index[2]].get("user") and b.locals[w.index[2]].get("mut") \
                    if w.index is not None and w.index[0] == "var" and len(w.index) > 2 and w.index[2] < len(b.locals) else False:
                # indexed by a hand-maintained counter (`while i < n { .. i += 1 }`): its range is not extracted
                unmodelled.append("words indexed by the counter `%s` of a while loop" % w.index[1])
                continue
            if w.index is None or w.index[0] != "iv":
                other.append("write not indexed by a loop variable: %s" % show(w.target)[:60])
                continue
            if w.index[1] in seen_iv:
                continue
            seen_iv.add(w.index[1])
            src = b.iter_source(w.index[1])
            if not (src[0] == "agg" and src[1].startswith("Range")):
                other.append("loop over %s" % show(src)[:60])
                continue
            lo, hi = src[3]
            if lo == ("int", 0) and _is_total(hi, totals, b):
                fulls.append(src)
            elif lo == ("int", 0) and is_call(hi, "min") and any(_is_total(a, totals, b) for a in hi[3]):
                x = [a for a in hi[3] if not _is_total(a, totals, b)]
                heads.append(x[0] if x else None)
            elif _is_total(hi, totals, b):
                x = lo
                if is_call(lo, "min"):
                    xs = [a for a in lo[3] if not _is_total(a, totals, b)]
                    x = xs[0] if xs else lo
                tails.append(x)
            else:
                other.append("loop range %s is neither 0..words(self), 0..min(words(self), X) nor X..words(self)" % show(src))
            # rhs word at the same index
            vals = w.value if w.how.startswith("call:") else (w.value,)
            for v in vals:
                for x in walk(v):
                    if is_call(x, "get_int") and len(x[3]) == 2 and x[3][0] == ("param", b.local_name(2)) and x[3][1] != w.index:
                        probs.append("rhs word index %s differs from the lhs word index %s" % (show(x[3][1]), b.iv_name(w.index[1])))
                    if isinstance(x, tuple) and x and x[0] == "index" and field_path_of(x) == [b.local_name(2), "data"] and x[2] != w.index:
                        probs.append("rhs word index %s differs from the lhs word index" % show(x[2]))
        probs += other
        if sorted(show(h) for h in heads) != sorted(show(t) for t in tails) and not unmodelled:
            probs.append("common-words loops 0..min(words(self), X) for X in %s are not matched by remaining-words loops X..words(self) (found tails for %s): "
                         "the words of self above the shorter operand would not be processed"
                         % ([show(h) for h in heads], [show(t) for t in tails]))
        if not fulls and not heads and not unmodelled and b.unmodelled_iteration():
            unmodelled.append("the words are walked through %s" % ", ".join(b.unmodelled_iteration()))
        if not fulls and not heads and not unmodelled:
            probs.append("no loop covering the words of self found")
        if unmodelled and not probs:
            res.append((b, "%s|word coverage" % b.key, "undecided", "; ".join(dict.fromkeys(unmodelled)) + ": an iterator chain this rule does not model"))
            continue
        res.append((b, "%s|word coverage" % b.key, "violation" if probs else "pass",
                    "; ".join(dict.fromkeys(probs)) if probs else
                    "%d full loops, %d head/tail pairs over the words of self; rhs word taken at the same index" % (len(fulls), len(heads))))
    # multiplication: schoolbook shape
    for b in crate.bodies:
        if b.kind == "Closure" or b.trait != "Mul" or b.self_family not in ("Bvf", "Bvd"):
            continue
        moved = moved_into_helpers(b)
        if moved and not b.loops():
            res.append((b, "%s|schoolbook shape" % b.key, "undecided",
                        "the multiplication loop lives in the helper(s) %s introduced after the review: shape not decided" % ", ".join(moved)))
            continue
        if not b.loops():
            continue
        probs = []
        cadds = [(bb, t) for bb, t, fn in b.iter_calls() if fn and fn["name"] == "cadd"]
        if len(cadds) != 1:
            probs.append("expected one cadd step, found %d" % len(cadds))
        else:
            bb, t = cadds[0]
            dst, prod_lo, carry = (b.e_operand(a) for a in t["args"])
            ok = dst[0] == "index" and is_bin(dst[2], "Add") and dst[2][2][0] == "iv" and dst[2][3][0] == "iv"
            if not ok:
                probs.append("partial product is accumulated at `%s`, expected res.data[i + j]" % show(dst))
            else:
                i, j = dst[2][2], dst[2][3]
                si, sj = b.iter_source(i[1]), b.iter_source(j[1])
                if sj[0] == "agg" and len(sj[3]) == 2 and not mir.contains(sj[3][1], lambda x: x == i) \
                        and si[0] == "agg" and len(si[3]) == 2 and mir.contains(si[3][1], lambda x: x == j):
                    # res.data[j + i]: the roles are decided by the ranges (the inner bound mentions the outer index)
                    i, j, si, sj = j, i, sj, si
                lenv = si[3][1] if si[0] == "agg" else None
                if not (si[0] == "agg" and si[3][0] == ("int", 0) and lenv is not None and (
                        (is_call(lenv, "int_len")) or is_call(lenv, "capacity_from_bit_len"))):
                    probs.append("outer loop is %s, expected 0..words(result)" % show(si))
                if not (sj[0] == "agg" and sj[3][0] == ("int", 0) and sj[3][1] == ("bin", "Sub", lenv, i)):
                    probs.append("inner loop is %s, expected 0..(words - i)" % show(sj))
                w = prod_lo[1] if prod_lo[0] == "field" else None
                if not (w is not None and is_call(w, "wmul")):
                    probs.append("addend is `%s`, expected the low word of wmul(..)" % show(prod_lo))
                else:
                    a0, a1 = w[3]
                    if not (a0[0] == "index" and a0[2] == i and field_path(a0)[-1:] == ["data"] and root_of(a0) == ("param", "self")):
                        probs.append("multiplicand word is `%s`, expected self.data[i]" % show(a0))
                    okj = False
                    for x in walk(a1):
                        if (is_call(x, ("get_int", "get")) and len(x[3]) == 2 and x[3][1] == j):
                            okj = True
                    if not okj:
                        probs.append("multiplier word `%s` is not indexed by j" % show(a1)[:60])
                    if is_call(mir.strip_casts(a1), "unwrap_or"):
                        d = mir.strip_casts(a1)[3][1]
                        if not (_is_zero_const(d) or show(d) in ("0",)):
                            probs.append("missing multiplier words default to %s, not zero" % show(d))
        if probs and b.unmodelled_iteration():
            res.append((b, "%s|schoolbook shape" % b.key, "undecided", "the kernel walks its words through %s, which this rule does not model (%s)"
                        % (", ".join(b.unmodelled_iteration()), "; ".join(probs)[:200])))
            continue
        res.append((b, "%s|schoolbook shape" % b.key, "violation" if probs else "pass",
                    "; ".join(probs) if probs else "res[i+j] += lo(self[i] * rhs[j]) for i in 0..words, j in 0..words-i, zero-extended rhs"))
    return res


def field_path_of(e):
    """['self'|param name, field, ...] of a place expression rooted in a parameter"""
    r = root_of(e)
    if r[0] != "param":
        return None
    return [r[1]] + field_path(e)


from .mir import field_path, root_of  # noqa: E402


# --------------------------------------------------------------------------------------------
# SIB: the three hand-cloned div_rem implementations agree slot by slot
# --------------------------------------------------------------------------------------------

def _anon(b, e):
    """expression with local names erased and parameters numbered, so that renaming has no effect"""
    if not isinstance(e, tuple) or not e:
        return e
    if e[0] == "var":
        return ("var", "_", 0)
    if e[0] == "param":
        for l in range(1, b.arg_count + 1):
            if b.local_name(l) == e[1]:
                return ("param", "#%d" % l)
        return e
    if e[0] == "iv":
        return ("iv", 0)
    if e[0] == "call" and e[1] == "new" and "RangeInclusive" in (e[2] or "") and len(e[3]) == 2:
        e = ("agg", "Range", "Range", (e[3][0], ("bin", "Add", e[3][1], ("int", 1))))
    if e[0] == "call":
        return ("call", e[1], None, tuple(_anon(b, x) for x in e[3]), ())
    return tuple(_anon(b, x) if isinstance(x, tuple) else x for x in e)


def _div_rem_slots(b):
    """the skeleton of the shift-subtract division, by role and independent of local names: branch conditions, and the
    calls that make up the algorithm with their (anonymised) arguments"""
    slots = {}
    norm = lambda s: s.replace("self.length", "len(#1)").replace("len(self)", "len(#1)").replace("#1.length", "len(#1)")
    conds = []
    for sb, cond, ts, fs in guard.cond_edges(b):
        c = _anon(b, cond)
        # a >= b and b <= a are the same branch
        if is_bin(c, ("Le", "Lt")):
            c = ("bin", {"Le": "Ge", "Lt": "Gt"}[c[1]], c[3], c[2])
        conds.append(norm(show(c)))
    slots["conds"] = sorted(set(conds))
    calls = []
    for bb, t, fn in b.iter_calls():
        if fn and fn["name"] in ("resize", "shl_assign", "shr_assign", "sub_assign", "set", "rev", "zeros", "clone", "significant_bits", "is_zero", "from"):
            e = _anon(b, b.e_call(t))
            if e[1] == "from":
                if tuple(e[3]) != (("param", "#1"),):
                    continue
                e = ("call", "clone", None, e[3], ())      # T::from(&T) of the dividend is a copy
            calls.append("%s(%s)" % (e[1], ", ".join(norm(show(a)) for a in e[3])))
    slots["calls"] = sorted(set(calls))
    return slots


def div_rem_siblings(crate):
    res = []
    impls = {b.self_family: b for b in crate.bodies if b.trait == "BitVector" and b.name == "div_rem"}
    if len(impls) != 3:
        return [(None, "SIB div_rem", "violation", "expected 3 div_rem implementations, found %d" % len(impls))]
    ref = _div_rem_slots(impls["Bvd"])
    for fam in ("Bvf", "Bv"):
        s = _div_rem_slots(impls[fam])
        diffs = []
        for k in ("conds", "calls"):
            a = [x for x in ref[k] if "try_into" not in x and "copy_range" not in x]
            c = [x for x in s[k] if "try_into" not in x and "copy_range" not in x]
            # the quotient/remainder are built by zeros(len)/copy: normalise the copy
            a = [x.replace("clone(#1)", "copy(#1)") for x in a]
            c = [x.replace("clone(#1)", "copy(#1)") for x in c]
            if fam == "Bvf":
                c = c + (["copy(#1)"] if k == "calls" and "copy(#1)" in a and "copy(#1)" not in c else [])
            a, c = sorted(set(a)), sorted(set(c))
            if a != c:
                diffs.append("%s differ: only in Bvd %s; only in %s %s" % (k, [x for x in a if x not in c], fam, [x for x in c if x not in a]))
        res.append((impls[fam], "SIB div_rem %s vs Bvd" % fam, "violation" if diffs else "pass",
                    "; ".join(diffs) if diffs else "guards, loop range, compare/subtract/set/shift steps agree with the Bvd copy"))
    return res


# --------------------------------------------------------------------------------------------
# to_vec: endianness arms
# --------------------------------------------------------------------------------------------

def _is_byte_buf(b, root):
    """a local Vec<u8> / [u8] buffer (whatever its name)"""
    return root[0] == "var" and len(root) > 2 and "u8" in b.local_ty(root[2]) and ("Vec<" in b.local_ty(root[2]) or "[u8" in b.local_ty(root[2]))


def to_vec_arms(crate):
    res = []
    for b in crate.bodies:
        if not (b.trait == "BitVector" and b.name == "to_vec" and b.self_family in ("Bvf", "Bvd")):
            continue
        sw = None
        for sb, t in b.iter_switches():
            e, m = b.switch_cond(sb)
            if e == ("discr", P(b.local_name(2))):       # the endianness is the first argument after self
                sw = (sb, m)
        if sw is None:
            res.append((b, "%s|endianness arms" % b.key, "violation", "no match on the endianness"))
            continue
        sb, m = sw
        arms = {}
        undecided = []
        for s, vals in m.items():
            for v in vals:
                if v in ("0", "1"):
                    arms[v] = s
        probs = []
        for v, want in (("0", "little"), ("1", "big")):
            if v not in arms:
                # `if endianness == Big { buf.reverse() }`: one layout plus a reversal - not the indexed-store idiom
                undecided.append("no separate arm for Endianness variant %s (single layout + adjustment?): byte placement not decided" % v)
                continue
            reach = b.reach_avoiding([arms[v]], avoid_blocks=[a for k, a in arms.items() if k != v])
            idxs = []
            for bb, i, st in b.iter_stmts():
                if bb in reach and st["s"] == "assign" and st["p"]["pr"]:
                    pe = b.e_place(st["p"])
                    if pe[0] == "index" and _is_byte_buf(b, root_of(pe)):
                        idxs.append(pe[2])
            for bb, t, fn in b.iter_calls():
                if bb in reach and fn and fn["name"] == "index_mut":
                    e = b.e_call(t)
                    if _is_byte_buf(b, root_of(e[3][0])):
                        idxs.append(e[3][1])
            if not idxs:
                undecided.append("%s-endian arm does not store bytes into an indexed buffer (unrecognised packing idiom)" % want)
                continue
            for ix in idxs:
                co, k = mir.linear(ix)
                ivc = co.get(("iv",), 0)
                others = {a: c for a, c in co.items() if a != ("iv",)}
                if want == "little" and not (ivc == 1 and not others and k == 0):
                    probs.append("little-endian arm stores byte i at `%s`, expected buf[i]" % show(ix))
                if want == "big" and not (ivc == -1 and k == -1 and others and all(c == 1 for c in others.values()) and len(others) == 1):
                    probs.append("big-endian arm stores byte i at `%s`, expected buf[n - i - 1]" % show(ix))
        if undecided and not probs:
            res.append((b, "%s|endianness arms" % b.key, "undecided", "; ".join(undecided)))
            continue
        res.append((b, "%s|endianness arms" % b.key, "violation" if probs else "pass",
                    "; ".join(dict.fromkeys(probs)) if probs else "Little stores byte i at buf[i], Big at buf[n - i - 1]"))
    return res


# --------------------------------------------------------------------------------------------
# SIB (stretch): hand-cloned Bvf / Bvd method pairs agree on their named slots after I -> u64
# --------------------------------------------------------------------------------------------

def _named_slots(b, skip=()):
    out = {}
    for l, d in enumerate(b.locals):
        nm = d.get("name")
        if nm and d["user"] and not b.is_param(l) and nm not in skip:
            fd = b.full_defs(l)
            out.setdefault(nm, sorted({_norm_word(show(b.e_def(x, 1, frozenset([l])))) for x in fd}))
    conds = sorted({_norm_word(show(c)) for _, c, _, _ in guard.cond_edges(b)})
    out["<branch conditions>"] = conds
    return out


def _norm_word(s):
    if s is None:
        return "<none>"
    s = re.sub(r"\bONE\b", "1", s)
    s = re.sub(r"\bZERO\b", "0", s)
    s = re.sub(r"\bMIN\b", "0", s)
    s = re.sub(r"iv\d+", "iv", s)
    s = re.sub(r"discr\((\w+)\) as u64", r"from(\1)", s)
    s = re.sub(r"\binto\((\w+)\)", r"from(\1)", s)
    s = s.replace("Bvd::", "").replace("Self::", "")
    return s


CLONED = {
    # method -> slots excluded from the comparison (storage initialisers / forms that legitimately differ)
    "shl_in": (), "shr_in": (),
    "rotl": ("new_data",), "rotr": ("new_data",),
    "trailing_zeros": (), "trailing_ones": (),
    "leading_zeros": ("count",), "leading_ones": ("count",),
    "resize": (), "to_vec": (),
}


def cloned_pairs(crate, methods=None):
    res = []
    def find(key):
        for b in crate.bodies:
            if b.key == key:
                return b
        return None
    for m, skip in CLONED.items():
        if methods and m not in methods:
            continue
        a, d = find("<Bvf<I, N> as BitVector>::%s" % m), find("<Bvd as BitVector>::%s" % m)
        key = "SIB Bvf/Bvd %s" % m
        if a is None or d is None:
            res.append((a or d, key, "violation", "one of the two copies is missing"))
            continue
        sa, sd = _named_slots(a, skip), _named_slots(d, skip)
        diffs, missing = [], []
        for k in sorted(set(sa) | set(sd)):
            x, y = sa.get(k), sd.get(k)
            if x is None or y is None:
                missing.append(k)   # one copy was restructured: not comparable slot by slot
                continue
            if k == "<branch conditions>":
                # Bvf::resize has the capacity assertion, Bvd::resize the reserve call: compare the common part
                x = [c for c in x if "capacity()" not in c]
                y = [c for c in y if "capacity()" not in c]
                if missing:
                    continue
            if x != y:
                diffs.append("slot `%s`: Bvf %s vs Bvd %s" % (k, x, y))
        if diffs:
            # a drift between the two hand-written copies is a lead, not a verdict: one copy may simply have been
            # rewritten (the rules deciding the property look at each copy on its own)
            res.append((a, key, "undecided", "the two copies differ (no verdict): " + "; ".join(diffs)[:500]))
        elif missing:
            res.append((a, key, "undecided", "the two copies no longer share the named slots %s: not comparable (no verdict)" % missing))
        else:
            res.append((a, key, "pass", "%d named slots agree after I -> u64" % len(sa)))
    if methods is None or "shifts" in methods:
        for ty in WORD_TYPES:
            for tr, m in (("ShlAssign", "shl_assign"), ("ShrAssign", "shr_assign")):
                a, d = find("<Bvf<I, N> as %s<%s>>::%s" % (tr, ty, m)), find("<Bvd as %s<%s>>::%s" % (tr, ty, m))
                key = "SIB Bvf/Bvd %s<%s>" % (tr, ty)
                if a is None or d is None:
                    res.append((a or d, key, "violation", "one of the two copies is missing"))
                    continue
                sa, sd = _slots_shift(a), _slots_shift(d)
                diffs = ["slot `%s`: Bvf %s vs Bvd %s" % (k, sa.get(k), sd.get(k)) for k in sorted(set(sa) | set(sd))
                         if _norm_self(sa.get(k)) != _norm_self(sd.get(k))]
                res.append((a, key, "undecided" if diffs else "pass",
                            "the two copies differ (no verdict): " + "; ".join(diffs)[:500] if diffs else "narrowing, loop conditions, chunk length, old index, chunk agree"))
    return res


# --------------------------------------------------------------------------------------------
# supporting facts for the not-applicable formatting property (reported under C03, not claimed)
# --------------------------------------------------------------------------------------------
FMT_PREFIX = {"Binary": "0b", "Octal": "0o", "LowerHex": "0x", "UpperHex": "0x", "Display": ""}


def fmt_facts(crate):
    res = []
    def find(key):
        for b in crate.bodies:
            if b.key == key:
                return b
        return None
    for tr, prefix in FMT_PREFIX.items():
        for fam, key in (("Bvf", "<Bvf<I, N> as %s>::fmt" % tr), ("Bvd", "<Bvd as %s>::fmt" % tr)):
            b = find(key)
            if b is None:
                res.append((None, "FMT %s %s" % (fam, tr), "violation", "formatting impl missing"))
                continue
            pads = [b.e_call(t) for bb, t, fn in b.iter_calls() if fn and fn["name"] == "pad_integral"]
            ok = len(pads) == 1 and show(pads[0][3][1]) == "true" and show(pads[0][3][2]).strip('"') == prefix
            res.append((b, "FMT %s %s pad_integral" % (fam, tr), "pass" if ok else "violation",
                        "returns f.pad_integral(true, \"%s\", digits)" % prefix if ok else
                        "pad_integral arguments are %s" % [show(a)[:30] for p_ in pads for a in p_[3][1:3]]))
        if tr == "Display":
            continue
        a, d = find("<Bvf<I, N> as %s>::fmt" % tr), find("<Bvd as %s>::fmt" % tr)
        if a is None or d is None:
            continue
        sa, sd = _named_slots(a), _named_slots(d)
        diffs = ["slot `%s`: Bvf %s vs Bvd %s" % (k, sa[k], sd[k]) for k in sorted(set(sa) & set(sd)) if sa[k] != sd[k]]
        missing = sorted(set(sa) ^ set(sd))
        v = "violation" if diffs else ("undecided" if missing else "pass")
        res.append((a, "SIB Bvf/Bvd %s::fmt" % tr, v,
                    "; ".join(diffs)[:500] if diffs else ("copies not comparable: %s" % missing if missing else
                                                          "digit extraction slots of the two hand-written copies agree")))
    return res


# --------------------------------------------------------------------------------------------
# POS: a word index taken from enumerate() must count positions of the *unfiltered* sequence
# --------------------------------------------------------------------------------------------
FILTERING = ("filter", "filter_map", "skip_while", "take_while", "step_by", "flat_map", "flatten", "skip", "chain", "dedup", "scan")


def positional_indices(crate):
    """`for (i, w) in words.filter(..).enumerate() { dst.set_int(i, w) }`: after a filtering adaptor the enumerate counter
    is the rank among the *kept* items, not the word's position - a value with a zero (or otherwise dropped) word in the
    middle lands one slot too low. Every storage write / set_int whose index is such a counter is reported."""
    res = []
    for b in crate.bodies:
        if b.self_family not in ("Bvf", "Bvd", "Bv") and not (b.kind == "Closure"):
            continue
        bad = []
        n = 0
        idx_exprs = []
        for e in storage.events(b):
            if e.kind == "write" and e.index is not None:
                idx_exprs.append((e.index, "storage write"))
            if e.kind == "mcall" and e.name == "set_int" and len(e.args) >= 2:
                idx_exprs.append((e.args[1], "set_int"))
        for bb, t, fn in b.iter_calls():
            if fn and fn["name"] == "set_int" and len(t["args"]) >= 2:
                idx_exprs.append((b.e_operand(t["args"][1]), "set_int"))
        for idx, what in idx_exprs:
            for x in walk(idx):
                if isinstance(x, tuple) and x[:1] == ("field",) and x[2] == "0" and x[1][:1] == ("iv",):
                    n += 1
                    src = b.raw_iter_source(x[1][1])
                    if is_call(src, "enumerate") and src[3]:
                        inner = [y[1] for y in walk(src[3][0]) if is_call(y) and y[1] in FILTERING]
                        if inner:
                            bad.append("%s index `%s` counts the items that survive %s(), not word positions" % (what, show(idx)[:40], "/".join(sorted(set(inner)))))
        if bad:
            res.append((b, "%s|POS" % b.key, "violation", "; ".join(dict.fromkeys(bad))))
        elif n:
            res.append((b, "%s|POS" % b.key, "pass", "%d enumerate-derived word indices, none behind a filtering adaptor" % n))
    return res


# --------------------------------------------------------------------------------------------
# VACUOUS: reading an operand at and above its own word count
# --------------------------------------------------------------------------------------------
_VAC_CONSUMERS = ("all", "any", "for_each", "map", "find", "position", "rposition", "filter", "find_map", "filter_map", "fold",
                  "try_fold", "take_while", "skip_while", "map_while", "try_for_each")


def _strip_refs(e):
    while isinstance(e, tuple) and e and ((e[0] in ("deref", "ref") and len(e) == 2) or (is_call(e, ("deref", "borrow", "as_ref", "clone")) and len(e[3]) == 1)):
        e = e[1] if e[0] in ("deref", "ref") else e[3][0]
    return e


def _vac_hits(lo, body_e, idx):
    """get_int(P, idx) nodes in body_e whose operand P is exactly the one whose word count is the range's lower bound"""
    out = []
    lo = mir.strip_casts(lo)
    if not (is_call(lo, "int_len") and len(lo[3]) == 1):
        return out
    owner = _strip_refs(lo[3][0])
    lo_ty = lo[4][-1] if len(lo) > 4 and lo[4] else None
    for x in walk(body_e):
        if is_call(x, "get_int") and len(x[3]) == 2 and mir.lin_eq(x[3][1], idx) and _strip_refs(x[3][0]) == owner:
            ty = x[4][-1] if len(x) > 4 and x[4] else None
            if lo_ty is None or ty is None or lo_ty == ty:
                out.append(x)
    return out


def vacuous_reads(crate):
    """`(a.int_len()..b.int_len()).all(|i| a.get_int(i) ...)`: every index of the range lies at or above a's own word count,
    where the length-masked accessor returns None (the zero extension) - whatever the test says about a's words there, it
    says about zeros. In a comparison this is the signature of a check applied to the wrong operand: the words of the
    *longer* operand above the shorter one's are never examined. Reported for closures handed to iterator consumers over an
    explicit range and for `for` loops over one."""
    res = []
    for b in crate.bodies:
        if b.self_family not in ("Bvf", "Bvd", "Bv") or b.kind == "Closure":
            continue
        bad, n = [], 0
        for bb, t, fn in b.iter_calls():
            if not fn:
                continue
            if fn["name"] in _VAC_CONSUMERS and len(t["args"]) == 2:
                recv, clo = b.e_operand(t["args"][0]), b.e_operand(t["args"][1])
                if clo[0] != "closure":
                    continue
                if recv[0] == "var" and len(recv) > 2:
                    recv = b.init_expr(recv[2]) or recv
                while is_call(recv, ("rev", "by_ref", "into_iter", "skip", "take", "step_by")) and recv[3]:
                    recv = recv[3][0]
                    if recv[0] == "var" and len(recv) > 2:
                        recv = b.init_expr(recv[2]) or recv
                if not (recv[0] == "agg" and recv[1] == "Range" and len(recv[3]) == 2):
                    continue
                sc = storage.subst_closure(crate, clo)
                if sc is None:
                    continue
                body_e, cb = sc
                if cb.arg_count < 2:
                    continue
                n += 1
                idx = ("param", cb.local_name(2))
                for x in _vac_hits(recv[3][0], body_e, idx):
                    bad.append("`%s` is evaluated for i in %s..%s: all of these indices are at or above %s's own word count, where it reads "
                               "as zero" % (show(x)[:50], show(recv[3][0])[:30], show(recv[3][1])[:30], show(_strip_refs(x[3][0]))))
            elif fn["name"] == "get_int" and len(t["args"]) == 2:
                e = b.e_call(t)
                idxe = e[3][1] if is_call(e, "get_int") and len(e[3]) == 2 else None
                core = idxe
                if core is not None and core[:1] == ("iv",) and len(core) == 2:
                    sh = b.iter_shape(core[1])
                    if sh is not None and sh["plain_range"]:
                        n += 1
                        for x in _vac_hits(sh["lo"], e, core):
                            bad.append("`%s` is evaluated in a loop starting at %s: these indices are at or above %s's own word count, "
                                       "where it reads as zero" % (show(x)[:50], show(sh["lo"])[:30], show(_strip_refs(x[3][0]))))
        if bad:
            res.append((b, "%s|VACUOUS" % b.key, "violation", "; ".join(dict.fromkeys(bad))))
        elif n:
            res.append((b, "%s|VACUOUS" % b.key, "pass", "%d ranged word reads, none of an operand above its own word count" % n))
    return res


# --------------------------------------------------------------------------------------------
# MOVEFILL: an in-place word move must clear the words it vacates
# --------------------------------------------------------------------------------------------
_MF_DOMAIN = (0, 1, 2, 3, 5, 64, 65, 128, 130, 200)


class _NoValue(Exception):
    pass


def _mf_leaves(e, out):
    """opaque leaves of an expression for the small-model evaluation: everything but integer literals, + - * / % min max,
    casts, the word-count function and the unit constants"""
    if not isinstance(e, tuple) or not e:
        return
    if e[0] == "int":
        return
    if e[0] == "assoc" and e[1] in ("BIT_UNIT", "BITS", "BYTE_UNIT", "NIBBLE_UNIT"):
        return
    if e[0] == "bin" and e[1] in ("Add", "Sub", "Mul", "Div", "Rem"):
        _mf_leaves(e[2], out)
        _mf_leaves(e[3], out)
        return
    if e[0] == "cast":
        _mf_leaves(e[1], out)
        return
    if is_call(e, ("min", "max")) and len(e[3]) == 2:
        _mf_leaves(e[3][0], out)
        _mf_leaves(e[3][1], out)
        return
    if is_call(e, "capacity_from_bit_len") and len(e[3]) == 1:
        _mf_leaves(e[3][0], out)
        return
    if e not in out:
        out.append(e)


def _mf_eval(e, env):
    if e[0] == "int":
        return e[1]
    if e[0] == "assoc" and e[1] in ("BIT_UNIT", "BITS"):
        return 64
    if e[0] == "assoc" and e[1] == "BYTE_UNIT":
        return 8
    if e[0] == "assoc" and e[1] == "NIBBLE_UNIT":
        return 16
    if e[0] == "bin" and e[1] in ("Add", "Sub", "Mul", "Div", "Rem"):
        x, y = _mf_eval(e[2], env), _mf_eval(e[3], env)
        if e[1] == "Add":
            return x + y
        if e[1] == "Mul":
            return x * y
        if e[1] == "Sub":
            if x < y:
                raise _NoValue()
            return x - y
        if y == 0:
            raise _NoValue()
        return x // y if e[1] == "Div" else x % y
    if e[0] == "cast":
        return _mf_eval(e[1], env)
    if is_call(e, "min") and len(e[3]) == 2:
        return min(_mf_eval(e[3][0], env), _mf_eval(e[3][1], env))
    if is_call(e, "max") and len(e[3]) == 2:
        return max(_mf_eval(e[3][0], env), _mf_eval(e[3][1], env))
    if is_call(e, "capacity_from_bit_len") and len(e[3]) == 1:
        return (_mf_eval(e[3][0], env) + 63) // 64
    if e in env:
        return env[e]
    raise _NoValue()


_MF_OPS = {"Lt": lambda x, y: x < y, "Le": lambda x, y: x <= y, "Gt": lambda x, y: x > y, "Ge": lambda x, y: x >= y,
           "Eq": lambda x, y: x == y, "Ne": lambda x, y: x != y}


def _zero_fill_range(b, e):
    """(lo, hi) of a `slice.fill(0)` / zero store over a range of self's storage, hi = None for `to the end`"""
    if e.kind != "write" or e.obj != ("param", "self"):
        return None
    if e.how == "call:fill" and e.value and e.value[0] in (("int", 0),) or (e.how == "call:fill" and e.value and e.value[0][0] == "assoc" and e.value[0][1] == "ZERO"):
        r = e.index
        if r is None:
            return ("int", 0), None
        if r[0] == "agg" and r[1] == "Range" and len(r[3]) == 2:
            return r[3][0], r[3][1]
        if r[0] == "agg" and r[1] == "RangeTo" and len(r[3]) == 1:
            return ("int", 0), r[3][0]
        if r[0] == "agg" and r[1] == "RangeFrom" and len(r[3]) == 1:
            return r[3][0], None
        if r[0] == "agg" and r[1] == "RangeFull":
            return ("int", 0), None
    return None


def move_fill(crate):
    """`self.data.copy_within(a..b, d)` moves words in place and leaves stale copies behind: [a, d) for an upward move,
    [d + (b - a), b) for a downward one (as far as they lie inside a..b). A shift kernel must zero exactly those words. The
    rule looks for a zero fill after the move that covers them - by affine reasoning over the guards that dominate the
    move - and otherwise searches small concrete values of the opaque terms (consistent with those guards) for which some
    vacated word is left uncovered; such a model is reported as a violation, no model and no proof is undecided."""
    from . import arith
    res = []
    for b in crate.bodies:
        if b.self_family not in ("Bvf", "Bvd") or b.kind == "Closure":
            continue
        evs = [e for e in storage.events(b) if not getattr(e, "inlined_from", None)]
        moves = [e for e in evs if e.kind == "write" and e.how == "call:copy_within" and e.obj == ("param", "self")]
        if not moves:
            continue
        verdicts = []
        for mv in moves:
            vals = mv.value or ()
            if len(vals) != 2 or vals[0][0] != "agg" or vals[0][1] != "Range" or len(vals[0][3]) != 2:
                verdicts.append(("undecided", "copy_within(%s): source range not explicit" % ", ".join(show(v)[:30] for v in vals)))
                continue
            (a0, b0), d0 = vals[0][3], vals[1]
            rels = arith._fresh_relations(b, mv.loc[0], arith._relations_at(b, mv.loc[0]))
            fills = []
            unknown_cover = False
            for e in evs:
                if e is mv or e.kind != "write" or e.obj != ("param", "self"):
                    continue
                if not (e.loc[0] == mv.loc[0] and e.loc > mv.loc or (e.loc[0] != mv.loc[0] and b.block_dominates(mv.loc[0], e.loc[0]))):
                    if e.loc[0] != mv.loc[0] and not b.block_dominates(e.loc[0], mv.loc[0]) and e.loc[0] in b.reachable_from(mv.loc[0]):
                        unknown_cover = True        # a later store on some paths only
                    continue
                fr = _zero_fill_range(b, e)
                if fr is None and e.index is not None and e.index[0] == "iv":
                    # a loop that rewrites words lo..hi (whatever it stores, they are no longer stale copies)
                    src = b.iter_source(e.index[1])
                    if is_call(src, "rev") and src[3]:
                        src = src[3][0]
                    if src[0] == "agg" and src[1] == "Range" and len(src[3]) == 2:
                        fr = (src[3][0], src[3][1])
                if fr is None and e.index is not None and e.index[0] == "agg" and str(e.index[1]).startswith("Range") and e.how.startswith("call:"):
                    r = e.index
                    fr = (r[3][0], r[3][1]) if r[1] == "Range" and len(r[3]) == 2 else (("int", 0), r[3][0]) if r[1] == "RangeTo" and len(r[3]) == 1 \
                        else (r[3][0], None) if r[1] == "RangeFrom" and len(r[3]) == 1 else None
                if fr is None:
                    if getattr(e, "is_mask", False) or (e.index is not None and e.index[0] not in ("iv", "iter", "agg")):
                        continue        # a single-word store (the top-word trim): neither a cover nor an unknown
                    unknown_cover = True
                    continue
                fills.append(fr)

            def le(x, y):
                if y is None:
                    return True
                if x is None:
                    return False
                for lb in [y] + ([y[3][0], y[3][1]] if is_call(y, "max") and len(y[3]) == 2 else []):
                    if arith._affine_le(x, lb, rels):
                        return True
                return False

            up, down = le(a0, d0), le(d0, a0)
            if up and down:
                verdicts.append(("pass", "copy_within onto itself"))
                continue
            if not up and not down:
                verdicts.append(("undecided", "direction of copy_within(%s.., %s) is not apparent" % (show(a0)[:30], show(d0)[:30])))
                continue
            if up:
                lo_need, hi_alts = a0, (d0, b0)                         # vacated: [a, min(d, b))
            else:
                width = ("bin", "Sub", b0, a0)
                lo_alts = (("bin", "Add", d0, width), a0)              # vacated: [max(d + (b - a), a), b)
            proven = False
            for f0, f1 in fills:
                if up and le(f0, lo_need) and any(le(h, f1) for h in hi_alts):
                    proven = True
                if down and le(b0, f1) and any(le(f0, l) for l in lo_alts):
                    proven = True
            if proven:
                verdicts.append(("pass", "the words vacated by copy_within(%s..%s, %s) are zero-filled" % (show(a0)[:30], show(b0)[:30], show(d0)[:30])))
                continue
            # small-model search
            leaves = []
            for x in [a0, b0, d0] + [y for f in fills for y in f if y is not None] + [z for op, l, r in rels for z in (l, r)]:
                _mf_leaves(mir.strip_casts(x), leaves)
            model = None
            if len(leaves) <= 5 and not unknown_cover:
                import itertools
                for combo in itertools.product(_MF_DOMAIN, repeat=len(leaves)):
                    env = dict(zip(leaves, combo))
                    try:
                        ok = True
                        for op, l, r in rels:
                            if op in _MF_OPS and not _MF_OPS[op](_mf_eval(mir.strip_casts(l), env), _mf_eval(mir.strip_casts(r), env)):
                                ok = False
                                break
                        if not ok:
                            continue
                        av, bv, dv = _mf_eval(a0, env), _mf_eval(b0, env), _mf_eval(d0, env)
                        if bv < av or (not up and dv > av) or (up and dv < av):
                            continue
                        vac = set(range(av, min(dv, bv))) if up else set(range(max(dv + (bv - av), av), bv))
                        moved_to = set(range(dv, dv + (bv - av)))
                        vac -= moved_to
                        for f0, f1 in fills:
                            fv0 = _mf_eval(f0, env)
                            fv1 = _mf_eval(f1, env) if f1 is not None else 10 ** 6
                            vac -= set(range(fv0, fv1))
                        if vac:
                            model = (env, sorted(vac)[:3], av, bv, dv)
                            break
                    except _NoValue:
                        continue
            if model is not None:
                env, left, av, bv, dv = model
                verdicts.append(("violation", "copy_within(%s..%s, %s) leaves stale words behind that no zero fill after it covers: e.g. with %s the move "
                                 "is %d..%d -> %d and word(s) %s keep their old content (zero fills after the move: %s)"
                                 % (show(a0)[:40], show(b0)[:60], show(d0)[:40], ", ".join("%s = %d" % (show(k)[:30], v) for k, v in env.items()),
                                    av, bv, dv, left, "; ".join("[%s, %s)" % (show(f0)[:30], show(f1)[:30] if f1 is not None else "end") for f0, f1 in fills) or "none")))
            else:
                verdicts.append(("undecided", "could neither prove nor refute that the words vacated by copy_within(%s..%s, %s) are cleared"
                                 % (show(a0)[:30], show(b0)[:30], show(d0)[:30])))
        worst = "violation" if any(v == "violation" for v, _ in verdicts) else "undecided" if any(v == "undecided" for v, _ in verdicts) else "pass"
        res.append((b, "%s|MOVEFILL" % b.key, worst, "; ".join(m for v, m in verdicts if v == worst)))
    return res


# --------------------------------------------------------------------------------------------
# ENDANCHOR: the top *used* words are not the top *allocated* words
# --------------------------------------------------------------------------------------------

def _whole_storage_of_param(e):
    e = mir.strip_casts(e)
    while is_call(e, ("as_ref", "as_slice", "deref", "borrow", "copied", "cloned", "by_ref", "into_iter")) and len(e[3]) == 1:
        e = mir.strip_casts(e[3][0])
    return e[0] == "field" and e[2] == "data" and e[1][:1] == ("param",)


def end_anchored_reads(crate):
    """`self.data.iter().rev().take(n)` with n a number of *used* words (derived from the bit length): the reversed walk
    starts at the last allocated word, so with spare capacity (Bvd after reserve / shrinking, Bvf below its capacity) it
    visits unused words and never reaches the most significant used ones. The two consistent forms are
    `self.data[..n].iter().rev()` and `(0..n).rev()`. Reported wherever the contradiction (allocation-end anchor,
    used-word count) appears; other end-anchored walks over a parameter's storage are listed as leads."""
    res = []
    for b in crate.bodies:
        if b.self_family not in ("Bvf", "Bvd") and not (b.kind == "Closure" and ("dynamic::" in b.path or "fixed::" in b.path)):
            continue
        bad, leads, n = [], [], 0
        for bb, t, fn in b.iter_calls():
            if not fn or fn["name"] not in ("take", "rev"):
                continue
            e = b.e_call(t)
            if is_call(e, "rev") and len(e[3]) == 1:
                inner = e[3][0]
                if is_call(inner, ("iter", "iter_mut")) and inner[3] and _whole_storage_of_param(inner[3][0]):
                    n += 1
                    leads.append("reversed walk over the whole allocation `%s`" % show(e)[:60])
            if is_call(e, "take") and len(e[3]) == 2:
                src = e[3][0]
                while is_call(src, ("copied", "cloned", "by_ref", "into_iter")) and len(src[3]) == 1:
                    src = src[3][0]
                if is_call(src, "rev") and len(src[3]) == 1:
                    inner = src[3][0]
                    if is_call(inner, ("iter", "iter_mut")) and inner[3] and _whole_storage_of_param(inner[3][0]):
                        cnt = e[3][1]
                        if mir.contains(cnt, lambda x: is_call(x, ("capacity_from_bit_len", "len", "int_len", "significant_bits"))
                                        or (isinstance(x, tuple) and x[:1] == ("field",) and x[2] == "length")):
                            bad.append("`%s`: the walk starts at the last *allocated* word but is limited to a number of *used* words"
                                       % show(e)[:90])
        if bad:
            res.append((b, "%s|ENDANCHOR" % b.key, "violation", "; ".join(dict.fromkeys(bad))))
        elif n:
            res.append((b, "%s|ENDANCHOR" % b.key, "undecided", "lead: " + "; ".join(dict.fromkeys(leads))))
    return res


# --------------------------------------------------------------------------------------------
# ZIPREF: zip over `by_ref()` iterators loses an element of the first one
# --------------------------------------------------------------------------------------------
CONSUMERS = ("next", "next_back", "all", "any", "for_each", "fold", "count", "last", "nth", "find", "position", "collect", "sum",
             "map", "zip", "rev", "skip", "take", "chain", "enumerate", "cmp", "eq", "into_iter")


def zip_by_ref(crate):
    """`a.by_ref().zip(b.by_ref())` (also `(&mut a).zip(..)`): when the second iterator ends first, zip has already pulled
    one more item from the first one and drops it. If the first iterator is used again afterwards (to inspect "the
    rest"), that item is never seen - e.g. an equality that compares the common words and then checks that the rest of
    the longer operand is zero accepts a non-zero word right above the shorter operand. Reported wherever the left
    operand of such a zip is consumed again after the zip."""
    res = []
    for b in crate.bodies:
        if b.self_family not in ("Bvf", "Bvd", "Bv") and not (b.self_ty or "").startswith("BitIterator"):
            continue
        zips = []
        for bb, t, fn in b.iter_calls():
            if fn and fn["name"] == "zip" and len(t["args"]) == 2:
                a0 = b.e_operand(t["args"][0])
                if is_call(a0, "by_ref") and a0[3] and a0[3][0][0] == "var":
                    zips.append((bb, a0[3][0]))
                elif a0[0] == "var" and b.local_ty(a0[2]).lstrip().startswith("&") and " mut " in b.local_ty(a0[2])[:24]:
                    zips.append((bb, a0))
        for zb, var in zips:
            reused = []
            for bb, t, fn in b.iter_calls():
                if bb == zb or not fn or fn["name"] not in CONSUMERS or not t["args"]:
                    continue
                a0 = b.e_operand(t["args"][0])
                inner = a0[3][0] if is_call(a0, "by_ref") and a0[3] else a0
                if inner == var and b.block_dominates(zb, bb):
                    reused.append(fn["name"])
            key = "%s|zip(by_ref(%s), ..)" % (b.key, var[1])
            if reused:
                res.append((b, key, "violation",
                            "`%s` is zipped through by_ref() and consumed again afterwards (%s): when the other side ends first, zip has "
                            "already taken one item of `%s` and dropped it, so the word right above the shorter operand is never looked at"
                            % (var[1], ", ".join(sorted(set(reused))), var[1])))
            else:
                res.append((b, key, "pass", "the by_ref() operand of zip is not used again"))
    return res
