//! bva-facts: a rustc_private driver that dumps the type-checked, *built* MIR of
//! every function body of crate `bva` (plus a few crate-level tables) as JSON.
//!
//! It is injected with RUSTC_WORKSPACE_WRAPPER into `cargo +nightly check --lib`
//! run in /repo's working tree. Nothing of bva is executed; the compiler's own
//! front end is the only thing that runs. The rule engine in /verif/rules reads
//! the JSON.
//!
//! Output: the file named by $BVA_FACTS_OUT (one write per process).
#![feature(rustc_private)]

extern crate rustc_abi;
extern crate rustc_driver;
extern crate rustc_hir;
extern crate rustc_interface;
extern crate rustc_middle;
extern crate rustc_session;
extern crate rustc_span;

use rustc_driver::{Callbacks, Compilation};
use rustc_hir as hir;
use rustc_hir::def::DefKind;
use rustc_hir::def_id::{DefId, LocalDefId};
use rustc_hir::intravisit::{self, Visitor};
use rustc_interface::interface;
use rustc_middle::mir::{
    self, AggregateKind, BasicBlock, BinOp, Body, BorrowKind, Const, Local, Operand, Place,
    ProjectionElem, Rvalue, StatementKind, TerminatorKind, UnOp, VarDebugInfoContents,
};
use rustc_middle::ty::{self, GenericArgsRef, Instance, Ty, TyCtxt, TypingEnv};
use rustc_span::Span;
use std::collections::HashMap;
use std::fmt::Write as _;

// ---------------------------------------------------------------------------
// minimal JSON writer
// ---------------------------------------------------------------------------

fn esc(s: &str) -> String {
    let mut o = String::with_capacity(s.len() + 2);
    o.push('"');
    for c in s.chars() {
        match c {
            '"' => o.push_str("\\\""),
            '\\' => o.push_str("\\\\"),
            '\n' => o.push_str("\\n"),
            '\r' => o.push_str("\\r"),
            '\t' => o.push_str("\\t"),
            c if (c as u32) < 0x20 => {
                let _ = write!(o, "\\u{:04x}", c as u32);
            }
            c => o.push(c),
        }
    }
    o.push('"');
    o
}

fn arr(items: Vec<String>) -> String {
    format!("[{}]", items.join(","))
}

struct Obj(Vec<String>);
impl Obj {
    fn new() -> Self {
        Obj(Vec::new())
    }
    fn s(mut self, k: &str, v: &str) -> Self {
        self.0.push(format!("{}:{}", esc(k), esc(v)));
        self
    }
    fn raw(mut self, k: &str, v: String) -> Self {
        self.0.push(format!("{}:{}", esc(k), v));
        self
    }
    fn n(self, k: &str, v: usize) -> Self {
        self.raw(k, v.to_string())
    }
    fn b(self, k: &str, v: bool) -> Self {
        self.raw(k, if v { "true".into() } else { "false".into() })
    }
    fn opt_s(self, k: &str, v: Option<String>) -> Self {
        match v {
            Some(v) => self.s(k, &v),
            None => self,
        }
    }
    fn done(self) -> String {
        format!("{{{}}}", self.0.join(","))
    }
}

// ---------------------------------------------------------------------------
// the dumper
// ---------------------------------------------------------------------------

struct Dumper<'tcx> {
    tcx: TyCtxt<'tcx>,
    macro_tab: Vec<String>,
    macro_idx: HashMap<String, usize>,
    cur_body: Option<*const ()>,
}

impl<'tcx> Dumper<'tcx> {
    fn path(&self, did: DefId) -> String {
        self.tcx.def_path_str(did)
    }

    fn line_of(&self, sp: Span) -> (String, usize) {
        let sm = self.tcx.sess.source_map();
        let loc = sm.lookup_char_pos(sp.lo());
        let name = format!("{}", loc.file.name.prefer_remapped_unconditionally());
        (name, loc.line)
    }

    /// innermost-first list of macro names this span was expanded from, with the
    /// call-site line of each, interned into a table.
    fn macros_of(&mut self, sp: Span) -> Option<usize> {
        let mut parts: Vec<String> = Vec::new();
        for ed in sp.macro_backtrace() {
            let name = match ed.kind {
                rustc_span::ExpnKind::Macro(_, sym) => sym.to_string(),
                rustc_span::ExpnKind::Desugaring(d) => format!("desugar:{:?}", d),
                rustc_span::ExpnKind::AstPass(p) => format!("astpass:{:?}", p),
                rustc_span::ExpnKind::Root => "root".to_string(),
            };
            let (f, l) = self.line_of(ed.call_site);
            parts.push(format!("{}@{}:{}", name, f, l));
        }
        if parts.is_empty() {
            return None;
        }
        let key = parts.join("|");
        if let Some(i) = self.macro_idx.get(&key) {
            return Some(*i);
        }
        let i = self.macro_tab.len();
        self.macro_tab.push(key.clone());
        self.macro_idx.insert(key, i);
        Some(i)
    }

    fn ty_s(&self, t: Ty<'tcx>) -> String {
        format!("{:?}", t)
    }

    fn gargs(&self, args: GenericArgsRef<'tcx>) -> String {
        arr(args.iter().map(|a| esc(&format!("{:?}", a))).collect())
    }

    fn place(&self, p: &Place<'tcx>) -> String {
        let mut pr = Vec::new();
        for (base, elem) in p.iter_projections() {
            pr.push(match elem {
                ProjectionElem::Deref => "\"*\"".to_string(),
                ProjectionElem::Field(f, t) => {
                    let mut o = Obj::new().n("f", f.as_usize()).s("ty", &self.ty_s(t));
                    if let Some(body) = self.cur_body {
                        // SAFETY of the pointer: set for the duration of `body()` only.
                        let body: &Body<'tcx> = unsafe { &*(body as *const Body<'tcx>) };
                        let bt = base.ty(body, self.tcx);
                        if let ty::Adt(adt, _) = bt.ty.kind() {
                            let vi = bt.variant_index.unwrap_or(rustc_abi::FIRST_VARIANT);
                            if vi.as_usize() < adt.variants().len() {
                                let v = adt.variant(vi);
                                if f.as_usize() < v.fields.len() {
                                    o = o
                                        .s("fname", v.fields[f].name.as_str())
                                        .s("adt", &self.path(adt.did()));
                                }
                            }
                        } else if let ty::Tuple(_) = bt.ty.kind() {
                            o = o.s("adt", "tuple");
                        }
                    }
                    o.done()
                }
                ProjectionElem::Index(l) => Obj::new().n("i", l.as_usize()).done(),
                ProjectionElem::ConstantIndex { offset, min_length, from_end } => Obj::new()
                    .n("ci", offset as usize)
                    .n("min", min_length as usize)
                    .b("fe", from_end)
                    .done(),
                ProjectionElem::Subslice { from, to, from_end } => Obj::new()
                    .n("sub_from", from as usize)
                    .n("sub_to", to as usize)
                    .b("fe", from_end)
                    .done(),
                ProjectionElem::Downcast(name, vi) => Obj::new()
                    .s("dc", &name.map(|s| s.to_string()).unwrap_or_default())
                    .n("vi", vi.as_usize())
                    .done(),
                other => Obj::new().s("other", &format!("{:?}", other)).done(),
            });
        }
        Obj::new().n("l", p.local.as_usize()).raw("pr", arr(pr)).done()
    }

    fn fn_info(&self, def_id: DefId, args: GenericArgsRef<'tcx>, caller: LocalDefId) -> String {
        let tcx = self.tcx;
        let mut o = Obj::new()
            .s("path", &self.path(def_id))
            .s("name", tcx.item_name(def_id).as_str())
            .raw("args", self.gargs(args))
            .s("crate", tcx.crate_name(def_id.krate).as_str())
            .s("kind", &format!("{:?}", tcx.def_kind(def_id)));
        if let Some(tr) = tcx.trait_of_assoc(def_id) {
            o = o.s("trait", &self.path(tr));
        }
        if let Some(imp) = tcx.impl_of_assoc(def_id) {
            o = o.raw("impl", self.impl_brief(imp));
        }
        // try to resolve trait-method calls to an impl item
        let env = TypingEnv::post_analysis(tcx, caller.to_def_id());
        if let Ok(Some(inst)) = Instance::try_resolve(tcx, env, def_id, args) {
            let rid = inst.def_id();
            if rid != def_id {
                let mut r = Obj::new()
                    .s("path", &self.path(rid))
                    .raw("args", self.gargs(inst.args))
                    .b("local", rid.is_local())
                    .s("def", &format!("{:?}", inst.def));
                if let Some(imp) = tcx.impl_of_assoc(rid) {
                    r = r.raw("impl", self.impl_brief(imp));
                }
                o = o.raw("res", r.done());
            }
        }
        o.b("local", def_id.is_local()).done()
    }

    fn impl_brief(&self, imp: DefId) -> String {
        let tcx = self.tcx;
        let self_ty = tcx.type_of(imp).instantiate_identity().skip_norm_wip();
        let mut o = Obj::new().s("self", &self.ty_s(self_ty));
        if let Some(tr) = tcx.impl_opt_trait_ref(imp) {
            let tr = tr.instantiate_identity().skip_norm_wip();
            o = o
                .s("trait", &self.path(tr.def_id))
                .raw("trait_args", self.gargs(tr.args))
                .s("trait_ref", &format!("{:?}", tr));
        }
        o.done()
    }

    fn konst(&self, c: &Const<'tcx>, caller: LocalDefId) -> String {
        let tcx = self.tcx;
        let ty = c.ty();
        let mut o = Obj::new().s("k", "const").s("ty", &self.ty_s(ty));
        if let ty::FnDef(def_id, args) = ty.kind() {
            o = o.raw("fn", self.fn_info(*def_id, args, caller));
            return o.done();
        }
        match c {
            Const::Unevaluated(uv, _) => {
                o = o
                    .s("uneval", &self.path(uv.def))
                    .s("uneval_name", &tcx.opt_item_name(uv.def).map(|s| s.to_string()).unwrap_or_default())
                    .raw("uargs", self.gargs(uv.args));
                if let Some(tr) = tcx.trait_of_assoc(uv.def) {
                    o = o.s("utrait", &self.path(tr));
                }
                if let Some(p) = uv.promoted {
                    o = o.n("promoted", p.as_usize());
                }
            }
            Const::Ty(_, tc) => {
                o = o.s("tyconst", &format!("{:?}", tc));
            }
            Const::Val(..) => {}
        }
        let env = TypingEnv::post_analysis(tcx, caller.to_def_id());
        if ty.is_integral() || ty.is_bool() || ty.is_char() {
            if let Some(si) = c.try_eval_scalar_int(tcx, env) {
                let bits = si.to_bits_unchecked();
                o = o.s("int", &bits.to_string());
            }
        }
        o.s("v", &format!("{}", c)).done()
    }

    fn operand(&self, op: &Operand<'tcx>, caller: LocalDefId) -> String {
        match op {
            Operand::Copy(p) => Obj::new().s("k", "copy").raw("p", self.place(p)).done(),
            Operand::Move(p) => Obj::new().s("k", "move").raw("p", self.place(p)).done(),
            Operand::Constant(c) => self.konst(&c.const_, caller),
            #[allow(unreachable_patterns)]
            other => Obj::new().s("k", "other").s("s", &format!("{:?}", other)).done(),
        }
    }

    fn rvalue(&self, rv: &Rvalue<'tcx>, caller: LocalDefId) -> String {
        let tcx = self.tcx;
        match rv {
            Rvalue::Use(op, ..) => Obj::new().s("k", "use").raw("o", self.operand(op, caller)).done(),
            Rvalue::Repeat(op, n) => Obj::new()
                .s("k", "repeat")
                .raw("o", self.operand(op, caller))
                .s("n", &format!("{:?}", n))
                .done(),
            Rvalue::Ref(_, bk, p) => Obj::new()
                .s("k", "ref")
                .b("m", matches!(bk, BorrowKind::Mut { .. }))
                .s("bk", &format!("{:?}", bk))
                .raw("p", self.place(p))
                .done(),
            Rvalue::RawPtr(k, p) => Obj::new()
                .s("k", "rawptr")
                .s("rk", &format!("{:?}", k))
                .raw("p", self.place(p))
                .done(),
            Rvalue::Cast(ck, op, ty) => Obj::new()
                .s("k", "cast")
                .s("ck", &format!("{:?}", ck))
                .raw("o", self.operand(op, caller))
                .s("ty", &self.ty_s(*ty))
                .done(),
            Rvalue::BinaryOp(op, ab) => {
                let (a, b) = &**ab;
                Obj::new()
                    .s("k", "bin")
                    .s("op", &format!("{:?}", op))
                    .raw("a", self.operand(a, caller))
                    .raw("b", self.operand(b, caller))
                    .done()
            }
            Rvalue::UnaryOp(op, a) => Obj::new()
                .s("k", "un")
                .s("op", &format!("{:?}", op))
                .raw("o", self.operand(a, caller))
                .done(),
            Rvalue::Discriminant(p) => Obj::new().s("k", "discr").raw("p", self.place(p)).done(),
            Rvalue::Aggregate(kind, fields) => {
                let fs = arr(fields.iter().map(|f| self.operand(f, caller)).collect());
                let mut o = Obj::new().s("k", "agg");
                match &**kind {
                    AggregateKind::Array(t) => {
                        o = o.s("ak", "array").s("elt", &self.ty_s(*t));
                    }
                    AggregateKind::Tuple => {
                        o = o.s("ak", "tuple");
                    }
                    AggregateKind::Adt(did, vi, args, _, _) => {
                        let adt = tcx.adt_def(*did);
                        let v = adt.variant(*vi);
                        o = o
                            .s("ak", "adt")
                            .s("adt", &self.path(*did))
                            .s("variant", v.name.as_str())
                            .n("vi", vi.as_usize())
                            .raw("gargs", self.gargs(args))
                            .raw(
                                "fnames",
                                arr(v.fields.iter().map(|f| esc(f.name.as_str())).collect()),
                            );
                    }
                    AggregateKind::Closure(did, _) => {
                        o = o.s("ak", "closure").s("closure", &self.path(*did));
                    }
                    other => {
                        o = o.s("ak", "other").s("s", &format!("{:?}", other));
                    }
                }
                o.raw("fs", fs).done()
            }
            Rvalue::CopyForDeref(p) => Obj::new().s("k", "copyforderef").raw("p", self.place(p)).done(),
            other => Obj::new().s("k", "other").s("s", &format!("{:?}", other)).done(),
        }
    }

    fn bb(&self, b: BasicBlock) -> String {
        b.as_usize().to_string()
    }

    fn body(&mut self, def: LocalDefId, body: &Body<'tcx>) -> String {
        let tcx = self.tcx;
        self.cur_body = Some(body as *const Body<'tcx> as *const ());
        let did = def.to_def_id();
        let kind = tcx.def_kind(did);
        let (file, line) = self.line_of(body.span);
        let (_, line_hi) = {
            let sm = tcx.sess.source_map();
            let loc = sm.lookup_char_pos(body.span.hi());
            (0, loc.line)
        };
        let mut o = Obj::new()
            .s("path", &self.path(did))
            .s("kind", &format!("{:?}", kind))
            .s("file", &file)
            .n("line", line)
            .n("line_hi", line_hi)
            .n("arg_count", body.arg_count);
        if let Some(m) = self.macros_of(body.span) {
            o = o.n("mx", m);
        }
        if matches!(kind, DefKind::Fn | DefKind::AssocFn) {
            o = o
                .s("name", tcx.item_name(did).as_str())
                .s("vis", &format!("{:?}", tcx.visibility(did)))
                .s("sig", &format!("{:?}", tcx.fn_sig(did).instantiate_identity().skip_norm_wip()));
            if let Some(imp) = tcx.impl_of_assoc(did) {
                o = o.raw("impl", self.impl_brief(imp)).s("impl_path", &self.path(imp));
                let (_, il) = self.line_of(tcx.def_span(imp));
                o = o.n("impl_line", il);
            }
            if let Some(tr) = tcx.trait_of_assoc(did) {
                o = o.s("trait_default_of", &self.path(tr));
            }
        } else if matches!(kind, DefKind::AssocConst { .. } | DefKind::Const { .. }) {
            o = o.s("name", tcx.item_name(did).as_str());
            if let Some(imp) = tcx.impl_of_assoc(did) {
                o = o.raw("impl", self.impl_brief(imp)).s("impl_path", &self.path(imp));
            }
        } else {
            // closure: record the enclosing fn
            let parent = tcx.typeck_root_def_id(did);
            o = o.s("parent", &self.path(parent));
        }
        // generics (of the item and its parents)
        {
            let g = tcx.generics_of(did);
            let mut names = Vec::new();
            let mut cur = Some(g);
            let mut chain = Vec::new();
            while let Some(gg) = cur {
                chain.push(gg);
                cur = gg.parent.map(|p| tcx.generics_of(p));
            }
            for gg in chain.iter().rev() {
                for p in &gg.own_params {
                    names.push(esc(&format!("{}:{:?}", p.name, p.kind.descr())));
                }
            }
            o = o.raw("generics", arr(names));
        }
        // locals
        let mut names: HashMap<usize, String> = HashMap::new();
        let mut upvars = Vec::new();
        for vdi in &body.var_debug_info {
            if let VarDebugInfoContents::Place(p) = &vdi.value {
                if p.projection.is_empty() {
                    names.insert(p.local.as_usize(), vdi.name.to_string());
                } else {
                    upvars.push(
                        Obj::new()
                            .s("name", vdi.name.as_str())
                            .raw("p", self.place(p))
                            .done(),
                    );
                }
            }
        }
        let mut locals = Vec::new();
        for (l, decl) in body.local_decls.iter_enumerated() {
            let mut lo = Obj::new()
                .s("ty", &self.ty_s(decl.ty))
                .b("mut", decl.mutability.is_mut())
                .b("user", decl.is_user_variable());
            if let Some(n) = names.get(&l.as_usize()) {
                lo = lo.s("name", n);
            }
            locals.push(lo.done());
        }
        o = o.raw("locals", arr(locals)).raw("upvars", arr(upvars));
        // blocks
        let mut blocks = Vec::new();
        for (_bb, data) in body.basic_blocks.iter_enumerated() {
            let mut stmts = Vec::new();
            for st in &data.statements {
                let sp = st.source_info.span;
                match &st.kind {
                    StatementKind::Assign(b) => {
                        let (p, rv) = &**b;
                        let (_, ln) = self.line_of(sp);
                        let mut so = Obj::new()
                            .s("s", "assign")
                            .raw("p", self.place(p))
                            .raw("r", self.rvalue(rv, def))
                            .n("ln", ln);
                        if let Some(m) = self.macros_of(sp) {
                            so = so.n("mx", m);
                        }
                        stmts.push(so.done());
                    }
                    StatementKind::SetDiscriminant { place, variant_index } => {
                        stmts.push(
                            Obj::new()
                                .s("s", "setdiscr")
                                .raw("p", self.place(place))
                                .n("vi", variant_index.as_usize())
                                .done(),
                        );
                    }
                    _ => {}
                }
            }
            let term = data.terminator();
            let sp = term.source_info.span;
            let (_, ln) = self.line_of(sp);
            let mut t = Obj::new();
            match &term.kind {
                TerminatorKind::Goto { target } => {
                    t = t.s("t", "goto").raw("to", self.bb(*target));
                }
                TerminatorKind::SwitchInt { discr, targets } => {
                    let tg: Vec<String> = targets
                        .iter()
                        .map(|(v, b)| format!("[{},{}]", esc(&v.to_string()), b.as_usize()))
                        .collect();
                    t = t
                        .s("t", "switch")
                        .raw("d", self.operand(discr, def))
                        .raw("tg", arr(tg))
                        .raw("ow", self.bb(targets.otherwise()));
                }
                TerminatorKind::Return => {
                    t = t.s("t", "ret");
                }
                TerminatorKind::Unreachable => {
                    t = t.s("t", "unreachable");
                }
                TerminatorKind::UnwindResume => {
                    t = t.s("t", "resume");
                }
                TerminatorKind::UnwindTerminate(_) => {
                    t = t.s("t", "terminate");
                }
                TerminatorKind::Drop { place, target, .. } => {
                    t = t
                        .s("t", "drop")
                        .raw("p", self.place(place))
                        .raw("to", self.bb(*target));
                }
                TerminatorKind::Call { func, args, destination, target, fn_span, .. } => {
                    let a = arr(args.iter().map(|a| self.operand(&a.node, def)).collect());
                    t = t
                        .s("t", "call")
                        .raw("f", self.operand(func, def))
                        .raw("args", a)
                        .raw("d", self.place(destination));
                    if let Some(tg) = target {
                        t = t.raw("to", self.bb(*tg));
                    }
                    let (_, fl) = self.line_of(*fn_span);
                    t = t.n("fln", fl);
                }
                TerminatorKind::Assert { cond, expected, msg, target, .. } => {
                    use rustc_middle::mir::AssertKind as AK;
                    let (kind, ops): (String, Vec<String>) = match &**msg {
                        AK::BoundsCheck { len, index } => (
                            "BoundsCheck".into(),
                            vec![self.operand(len, def), self.operand(index, def)],
                        ),
                        AK::Overflow(op, a, b) => (
                            format!("Overflow({:?})", op),
                            vec![self.operand(a, def), self.operand(b, def)],
                        ),
                        AK::OverflowNeg(a) => ("OverflowNeg".into(), vec![self.operand(a, def)]),
                        AK::DivisionByZero(a) => ("DivisionByZero".into(), vec![self.operand(a, def)]),
                        AK::RemainderByZero(a) => ("RemainderByZero".into(), vec![self.operand(a, def)]),
                        other => (format!("{:?}", other), vec![]),
                    };
                    t = t
                        .s("t", "assert")
                        .raw("c", self.operand(cond, def))
                        .b("exp", *expected)
                        .s("kind", &kind)
                        .raw("ops", arr(ops))
                        .raw("to", self.bb(*target));
                }
                TerminatorKind::FalseEdge { real_target, imaginary_target } => {
                    t = t
                        .s("t", "falseedge")
                        .raw("to", self.bb(*real_target))
                        .raw("im", self.bb(*imaginary_target));
                }
                TerminatorKind::FalseUnwind { real_target, .. } => {
                    t = t.s("t", "falseunwind").raw("to", self.bb(*real_target));
                }
                other => {
                    t = t.s("t", "other").s("s", &format!("{:?}", other));
                }
            }
            t = t.n("ln", ln);
            if let Some(m) = self.macros_of(sp) {
                t = t.n("mx", m);
            }
            blocks.push(
                Obj::new()
                    .raw("st", arr(stmts))
                    .raw("term", t.done())
                    .b("cleanup", data.is_cleanup)
                    .done(),
            );
        }
        self.cur_body = None;
        o.raw("blocks", arr(blocks)).done()
    }
}

struct UnsafeFinder<'a, 'tcx> {
    d: &'a Dumper<'tcx>,
    owner: String,
    out: Vec<String>,
}

impl<'a, 'tcx> Visitor<'tcx> for UnsafeFinder<'a, 'tcx> {
    fn visit_block(&mut self, b: &'tcx hir::Block<'tcx>) {
        if let hir::BlockCheckMode::UnsafeBlock(src) = b.rules {
            let (f, l) = self.d.line_of(b.span);
            self.out.push(
                Obj::new()
                    .s("fn", &self.owner)
                    .s("file", &f)
                    .n("line", l)
                    .s("src", &format!("{:?}", src))
                    .b("from_expansion", b.span.from_expansion())
                    .done(),
            );
        }
        intravisit::walk_block(self, b);
    }
}

fn dump<'tcx>(tcx: TyCtxt<'tcx>, out_path: &str) {
    let mut d = Dumper { tcx, macro_tab: Vec::new(), macro_idx: HashMap::new(), cur_body: None };
    let mut bodies = Vec::new();
    let mut unsafe_blocks = Vec::new();
    let mut n_skipped = 0usize;
    // Evaluating a constant operand while one body is dumped (`const BYTE: usize = ..` declared inside a function) makes
    // rustc steal that constant's `mir_built`; so every body is copied first, before anything is evaluated.
    let mut built = HashMap::new();
    for def in tcx.hir_body_owners() {
        let kind = tcx.def_kind(def);
        if matches!(kind, DefKind::Fn | DefKind::AssocFn | DefKind::Closure | DefKind::AssocConst { .. } | DefKind::Const { .. }) {
            let steal = tcx.mir_built(def);
            let copy: Body<'tcx> = steal.borrow().clone();
            built.insert(def, copy);
        }
    }
    for def in tcx.hir_body_owners() {
        let kind = tcx.def_kind(def);
        if !matches!(kind, DefKind::Fn | DefKind::AssocFn | DefKind::Closure | DefKind::AssocConst { .. } | DefKind::Const { .. }) {
            n_skipped += 1;
            continue;
        }
        // unsafe blocks (HIR)
        {
            let body = tcx.hir_body_owned_by(def);
            let mut uf = UnsafeFinder { d: &d, owner: tcx.def_path_str(def.to_def_id()), out: Vec::new() };
            uf.visit_expr(body.value);
            unsafe_blocks.extend(uf.out);
        }
        let body = &built[&def];
        bodies.push(d.body(def, body));
    }

    // ADTs, impls, traits
    let mut adts = Vec::new();
    let mut impls = Vec::new();
    let mut traits = Vec::new();
    let mut mods = Vec::new();
    let mut fns_unsafe = Vec::new();
    for id in tcx.hir_free_items() {
        let did = id.owner_id.to_def_id();
        match tcx.def_kind(did) {
            DefKind::Struct | DefKind::Enum => {
                let adt = tcx.adt_def(did);
                let mut vs = Vec::new();
                for v in adt.variants() {
                    let fs: Vec<String> = v
                        .fields
                        .iter()
                        .map(|f| {
                            Obj::new()
                                .s("name", f.name.as_str())
                                .s("ty", &format!("{:?}", tcx.type_of(f.did).instantiate_identity().skip_norm_wip()))
                                .s("vis", &format!("{:?}", f.vis))
                                .done()
                        })
                        .collect();
                    vs.push(Obj::new().s("name", v.name.as_str()).raw("fields", arr(fs)).done());
                }
                adts.push(
                    Obj::new()
                        .s("path", &d.path(did))
                        .s("kind", &format!("{:?}", tcx.def_kind(did)))
                        .s("vis", &format!("{:?}", tcx.visibility(did)))
                        .raw("variants", arr(vs))
                        .done(),
                );
            }
            DefKind::Trait => {
                let ev = tcx.effective_visibilities(());
                traits.push(
                    Obj::new()
                        .s("path", &d.path(did))
                        .s("vis", &format!("{:?}", tcx.visibility(did)))
                        .b("reachable", did.as_local().map(|l| ev.is_reachable(l)).unwrap_or(false))
                        .b("exported", did.as_local().map(|l| ev.is_exported(l)).unwrap_or(false))
                        .done(),
                );
            }
            DefKind::Mod => {
                mods.push(
                    Obj::new()
                        .s("path", &d.path(did))
                        .s("vis", &format!("{:?}", tcx.visibility(did)))
                        .done(),
                );
            }
            DefKind::Impl { .. } => {
                let mut items = Vec::new();
                for it in tcx.associated_items(did).in_definition_order() {
                    let mut io = Obj::new()
                        .s("name", it.name().as_str())
                        .s("kind", &format!("{:?}", it.tag()))
                        .s("path", &d.path(it.def_id));
                    if it.is_type() {
                        io = io.s("ty", &format!("{:?}", tcx.type_of(it.def_id).instantiate_identity().skip_norm_wip()));
                    }
                    if it.is_fn() {
                        let sig = tcx.fn_sig(it.def_id).instantiate_identity().skip_norm_wip();
                        if sig.safety().is_unsafe() {
                            fns_unsafe.push(esc(&d.path(it.def_id)));
                        }
                    }
                    items.push(io.done());
                }
                let (f, l) = d.line_of(tcx.def_span(did));
                let mx = d.macros_of(tcx.def_span(did));
                let mut io = Obj::new()
                    .s("path", &d.path(did))
                    .raw("hdr", d.impl_brief(did))
                    .s("file", &f)
                    .n("line", l)
                    .s("predicates", &format!("{:?}", tcx.predicates_of(did).instantiate_identity(tcx).predicates))
                    .raw("items", arr(items));
                if let Some(m) = mx {
                    io = io.n("mx", m);
                }
                impls.push(io.done());
            }
            _ => {}
        }
    }

    // layouts of the six word types
    let mut layouts = Vec::new();
    let env = TypingEnv::fully_monomorphized();
    for (name, t) in [
        ("u8", tcx.types.u8),
        ("u16", tcx.types.u16),
        ("u32", tcx.types.u32),
        ("u64", tcx.types.u64),
        ("u128", tcx.types.u128),
        ("usize", tcx.types.usize),
    ] {
        if let Ok(l) = tcx.layout_of(env.as_query_input(t)) {
            layouts.push(
                Obj::new()
                    .s("ty", name)
                    .n("size", l.size.bytes() as usize)
                    .n("align", l.align.abi.bytes() as usize)
                    .done(),
            );
        }
    }

    let sess = tcx.sess;
    let top = Obj::new()
        .s("crate", tcx.crate_name(rustc_hir::def_id::LOCAL_CRATE).as_str())
        .s("rustc", option_env!("CFG_VERSION").unwrap_or("nightly"))
        .b("debug_assertions", sess.opts.debug_assertions)
        .b("overflow_checks", sess.overflow_checks())
        .s("target", &sess.opts.target_triple.to_string())
        .n("pointer_width", sess.target.pointer_width as usize)
        .s("endian", &format!("{:?}", sess.target.endian))
        .n("skipped_owners", n_skipped)
        .raw("macros", arr(d.macro_tab.iter().map(|m| esc(m)).collect()))
        .raw("adts", arr(adts))
        .raw("impls", arr(impls))
        .raw("traits", arr(traits))
        .raw("mods", arr(mods))
        .raw("layouts", arr(layouts))
        .raw("unsafe_blocks", arr(unsafe_blocks))
        .raw("unsafe_fns", arr(fns_unsafe))
        .raw("bodies", arr(bodies))
        .done();
    std::fs::write(out_path, top).expect("bva-facts: cannot write facts file");
}

struct Cb;

impl Callbacks for Cb {
    fn after_expansion<'tcx>(&mut self, _c: &interface::Compiler, tcx: TyCtxt<'tcx>) -> Compilation {
        let krate = tcx.crate_name(rustc_hir::def_id::LOCAL_CRATE);
        let want = std::env::var("BVA_FACTS_CRATE").unwrap_or_else(|_| "bva".to_string());
        if krate.as_str() == want {
            if let Ok(out) = std::env::var("BVA_FACTS_OUT") {
                dump(tcx, &out);
            }
        }
        Compilation::Continue
    }
}

fn main() {
    let mut args: Vec<String> = std::env::args().collect();
    // RUSTC_WORKSPACE_WRAPPER passes the real rustc path as argv[1]
    if args.len() > 1 && (args[1].ends_with("rustc") || args[1].contains("/rustc")) {
        args.remove(1);
    }
    let mut cb = Cb;
    rustc_driver::run_compiler(&args, &mut cb);
}

#[allow(dead_code)]
fn _unused(_: Local, _: BinOp, _: UnOp, _: mir::Statement<'_>) {}
